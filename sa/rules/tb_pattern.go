package rules

import (
	"fmt"
	"go/ast"
	"go/constant"
	"go/token"
	"go/types"
	"regexp"
	"sort"
	"strings"

	"verif/sa/core"
)

// swInfo describes one switch statement inside a function.
type swInfo struct {
	sw      *ast.SwitchStmt
	tag     string
	tagObj  types.Object // the variable switched over, when the tag is one
	clauses []*swClause
	parent  *swClause // enclosing clause of an outer switch, if any
}

type swClause struct {
	cc     *ast.CaseClause
	runes  map[rune]bool
	strs   map[string]bool
	isDflt bool
	owner  *swInfo
}

// switches lists the switch statements of a function in source order.
func switches(p *core.Program, f *core.Func) []*swInfo {
	info := f.Info()
	var out []*swInfo
	byCC := map[*ast.CaseClause]*swClause{}
	f.OwnNodes(func(n ast.Node) bool {
		sw, ok := n.(*ast.SwitchStmt)
		if !ok {
			return true
		}
		si := &swInfo{sw: sw}
		if sw.Tag != nil {
			si.tag = exprStr(sw.Tag)
			if id, isID := ast.Unparen(sw.Tag).(*ast.Ident); isID {
				si.tagObj = info.Uses[id]
			}
		}
		if cc := enclosingCase(p, sw); cc != nil {
			si.parent = byCC[cc]
		}
		for _, cl := range sw.Body.List {
			cc := cl.(*ast.CaseClause)
			c := &swClause{cc: cc, runes: map[rune]bool{}, strs: map[string]bool{}, isDflt: cc.List == nil, owner: si}
			for _, e := range cc.List {
				if tv, ok := info.Types[e]; ok && tv.Value != nil {
					switch tv.Value.Kind() {
					case constant.Int:
						if v, ok := constant.Int64Val(tv.Value); ok {
							c.runes[rune(v)] = true
						}
					case constant.String:
						c.strs[constant.StringVal(tv.Value)] = true
					}
				}
			}
			byCC[cc] = c
			si.clauses = append(si.clauses, c)
		}
		out = append(out, si)
		return true
	})
	return out
}

func (si *swInfo) clauseFor(r rune) *swClause {
	for _, c := range si.clauses {
		if c.runes[r] {
			return c
		}
	}
	return nil
}

// clauseFor0 is clauseFor for string case labels.
func (si *swInfo) clauseFor0(s string) *swClause {
	for _, c := range si.clauses {
		if c.strs[s] {
			return c
		}
	}
	return nil
}

func (si *swInfo) allRunes() map[rune]bool {
	out := map[rune]bool{}
	for _, c := range si.clauses {
		for r := range c.runes {
			out[r] = true
		}
	}
	return out
}

// writesBackslashFirst reports whether the clause body's first write to the
// builder is a backslash.
func writesBackslashFirst(info *types.Info, c *swClause) bool {
	for _, s := range c.cc.Body {
		es, ok := s.(*ast.ExprStmt)
		if !ok {
			return false
		}
		call, ok := es.X.(*ast.CallExpr)
		if !ok {
			return false
		}
		name := calleeName(info, call)
		if !strings.HasPrefix(name, "strings.(*Builder).Write") {
			return false
		}
		if len(call.Args) == 1 {
			if v, ok := constInt(info, call.Args[0]); ok {
				return v == '\\'
			}
			if s, ok := constStr(info, call.Args[0]); ok {
				return strings.HasPrefix(s, `\`)
			}
			// "\\" + string(r): the leftmost operand of a concatenation
			e := ast.Unparen(call.Args[0])
			for {
				be, ok := e.(*ast.BinaryExpr)
				if !ok || be.Op != token.ADD {
					break
				}
				e = ast.Unparen(be.X)
			}
			if s, ok := constStr(info, e); ok {
				return strings.HasPrefix(s, `\`)
			}
		}
		return false
	}
	return false
}

// re2Meta computes the ASCII characters RE2 treats specially outside a
// class, from the regexp package itself.
func re2Meta() map[rune]bool {
	out := map[rune]bool{}
	for c := rune(0x20); c < 0x7f; c++ {
		if regexp.QuoteMeta(string(c)) != string(c) {
			out[c] = true
		}
	}
	// closers are literal outside their construct once the opener is escaped
	delete(out, ']')
	delete(out, '}')
	return out
}

func ruleTB1() Rule {
	return Rule{ID: "TB1", Kind: "agreement", Floor: 25,
		Doc: "every regular-expression metacharacter (computed from regexp.QuoteMeta) is handled in all three translation contexts of compile: top level (own case that escapes it or implements pattern syntax), after a backslash (escaped), and inside a bracket expression after a backslash (class-special characters escaped)",
		Run: func(c *Ctx, rr *core.RuleResult) {
			f := c.mustFn(rr, "pattern.compile")
			if f == nil {
				return
			}
			info := f.Info()
			sws := switches(c.P, f)
			// the top-level rune switch: no enclosing clause, tag is a rune, has cases for '?' and '*'
			var top *swInfo
			for _, s := range sws {
				if s.parent == nil && s.clauseFor('?') != nil && s.clauseFor('*') != nil {
					top = s
				}
			}
			if top == nil {
				rr.Unk(f, "pattern.compile|top-switch", f.Pos(), "no top-level rune switch with cases for '?' and '*' found")
				return
			}
			meta := re2Meta()
			var ms []int
			for r := range meta {
				ms = append(ms, int(r))
			}
			sort.Ints(ms)
			semantic := map[rune]bool{'?': true, '*': true, '[': true, '\\': true}
			for _, ri := range ms {
				r := rune(ri)
				key := fmt.Sprintf("pattern.compile|top %q", r)
				cl := top.clauseFor(r)
				switch {
				case cl == nil:
					rr.Bad(f, key, top.sw.Pos(), fmt.Sprintf("regexp metacharacter %q has no case at top level: it is copied unescaped into the regular expression", r))
				case semantic[r]:
					rr.OK(f, key, cl.cc.Pos(), "pattern-syntax", "implements shell pattern syntax")
				case writesBackslashFirst(info, cl):
					rr.OK(f, key, cl.cc.Pos(), "escaped", "case writes a backslash before the rune")
				default:
					rr.Bad(f, key, cl.cc.Pos(), fmt.Sprintf("the case for %q does not write a backslash first", r))
				}
			}
			// after-backslash switch: child of the top-level '\\' clause
			var afterBS, bracket, bracketBS *swInfo
			for _, s := range sws {
				if s.parent != nil && s.parent.owner == top && s.parent.runes['\\'] {
					afterBS = s
				}
				if s.parent != nil && s.parent.owner == top && s.parent.runes['['] && s.clauseFor(']') != nil && s.clauseFor('\\') != nil {
					bracket = s
				}
			}
			if bracket != nil {
				for _, s := range sws {
					if s.parent != nil && s.parent.owner == bracket && s.parent.runes['\\'] {
						bracketBS = s
					}
				}
			}
			if afterBS == nil {
				rr.Unk(f, "pattern.compile|after-backslash-switch", top.sw.Pos(), "no switch inside the top-level backslash case")
			} else {
				meta2 := re2Meta()
				meta2[']'], meta2['}'] = true, true
				var ms2 []int
				for r := range meta2 {
					ms2 = append(ms2, int(r))
				}
				sort.Ints(ms2)
				for _, ri := range ms2 {
					r := rune(ri)
					key := fmt.Sprintf("pattern.compile|after-backslash %q", r)
					cl := afterBS.clauseFor(r)
					if cl != nil && writesBackslashFirst(info, cl) {
						rr.OK(f, key, cl.cc.Pos(), "escaped", "escaped character stays escaped in the regular expression")
					} else if r == ']' || r == '}' {
						rr.OK(f, key, afterBS.sw.Pos(), "literal-closer", "RE2 reads an unmatched closer literally").Trivial = true
					} else {
						rr.Bad(f, key, afterBS.sw.Pos(), fmt.Sprintf("an escaped %q loses its backslash: `\\%c` in a pattern becomes a live regexp operator", r, r))
					}
				}
			}
			if bracket == nil || bracketBS == nil {
				rr.Unk(f, "pattern.compile|bracket-switch", top.sw.Pos(), "bracket-expression switch (with ']' and '\\\\' cases) or its backslash sub-switch not found")
			} else {
				for _, r := range []rune{'\\', ']', '^', '-', '['} {
					key := fmt.Sprintf("pattern.compile|bracket-after-backslash %q", r)
					cl := bracketBS.clauseFor(r)
					if cl != nil && writesBackslashFirst(info, cl) {
						rr.OK(f, key, cl.cc.Pos(), "escaped", "class-special character stays escaped inside [...]")
					} else {
						rr.Bad(f, key, bracketBS.sw.Pos(), fmt.Sprintf("inside a bracket expression an escaped %q is written without its backslash, so RE2 reads it as class syntax (`[\\%c]` does not match %q)", r, r, r))
					}
				}
			}
		}}
}

// builderWrites lists, in order, the constant text written by the
// statements of a list, each with the mode bit that guards it ("" =
// unconditional).  It stops at the first loop.
type guardedWrite struct {
	text  string
	bit   string // name of the Mode constant tested, "" if unconditional
	exact bool   // condition is exactly mode&bit != 0
	pos   token.Pos
}

func constWrite(info *types.Info, s ast.Stmt) (string, bool) {
	es, ok := s.(*ast.ExprStmt)
	if !ok {
		return "", false
	}
	call, ok := es.X.(*ast.CallExpr)
	if !ok || !strings.HasPrefix(calleeName(info, call), "strings.(*Builder).Write") || len(call.Args) != 1 {
		return "", false
	}
	if v, ok := constInt(info, call.Args[0]); ok {
		return string(rune(v)), true
	}
	if s, ok := constStr(info, call.Args[0]); ok {
		return s, true
	}
	return "", false
}

// modeBitTest recognises `mode&X != 0`.
func modeBitTest(info *types.Info, e ast.Expr) (string, bool) {
	be, ok := ast.Unparen(e).(*ast.BinaryExpr)
	if !ok || be.Op != token.NEQ {
		return "", false
	}
	if v, ok := constInt(info, be.Y); !ok || v != 0 {
		return "", false
	}
	and, ok := ast.Unparen(be.X).(*ast.BinaryExpr)
	if !ok || and.Op != token.AND {
		return "", false
	}
	for _, side := range []ast.Expr{and.X, and.Y} {
		if id, ok := ast.Unparen(side).(*ast.Ident); ok {
			if _, isConst := info.Uses[id].(*types.Const); isConst {
				return id.Name, true
			}
		}
	}
	return "", false
}

func guardedWrites(info *types.Info, list []ast.Stmt) []guardedWrite {
	var out []guardedWrite
	for _, s := range list {
		if t, ok := constWrite(info, s); ok {
			out = append(out, guardedWrite{text: t, pos: s.Pos()})
			continue
		}
		if ifs, ok := s.(*ast.IfStmt); ok && ifs.Init == nil && ifs.Else == nil && len(ifs.Body.List) == 1 {
			if t, ok := constWrite(info, ifs.Body.List[0]); ok {
				bit, exact := modeBitTest(info, ifs.Cond)
				if !exact {
					bit = exprStr(ifs.Cond)
				}
				out = append(out, guardedWrite{text: t, bit: bit, exact: exact, pos: s.Pos()})
				continue
			}
		}
	}
	return out
}

func ruleTB2() Rule {
	return Rule{ID: "TB2", Kind: "must", Floor: 5,
		Doc: "compile's wild cards are dot atoms, so the constant prefix must switch RE2 to dot-all ((?s)); the alternatives are wrapped in exactly one capturing group; `^` is written under exactly mode&Prefix != 0 and `$` under exactly mode&Suffix != 0 (TB12); glob's dot-file test uses the prefix compile really emits (TB3)",
		Run: func(c *Ctx, rr *core.RuleResult) {
			f := c.mustFn(rr, "pattern.compile")
			if f == nil {
				return
			}
			info := f.Info()
			// statements before and after the pattern loop
			loopIdx := -1
			for i, s := range f.Body.List {
				if _, ok := s.(*ast.RangeStmt); ok {
					loopIdx = i
					break
				}
			}
			if loopIdx < 0 {
				rr.Unk(f, "pattern.compile|pattern-loop", f.Pos(), "no range loop over the patterns")
				return
			}
			pre := guardedWrites(info, f.Body.List[:loopIdx])
			post := guardedWrites(info, f.Body.List[loopIdx+1:])
			// wild-card atoms
			sws := switches(c.P, f)
			usesDot := false
			for _, s := range sws {
				for _, r := range []rune{'?', '*'} {
					if cl := s.clauseFor(r); cl != nil && s.parent == nil {
						ast.Inspect(cl.cc, func(n ast.Node) bool {
							if call, ok := n.(*ast.CallExpr); ok && len(call.Args) == 1 {
								if v, ok := constInt(info, call.Args[0]); ok && v == '.' {
									usesDot = true
								}
								if sv, ok := constStr(info, call.Args[0]); ok && strings.Contains(sv, ".") {
									usesDot = true
								}
							}
							return true
						})
					}
				}
			}
			prefix := ""
			for _, w := range pre {
				if w.bit == "" {
					prefix += w.text
				}
			}
			key := "pattern.compile|dot-all"
			switch {
			case !usesDot:
				rr.OK(f, key, f.Pos(), "no-dot", "wild cards are not translated to '.'")
			case regexp.MustCompile(`^\(\?[a-zA-Z]*s[a-zA-Z]*\)`).MatchString(prefix):
				rr.OK(f, key, f.Pos(), "flag", "constant prefix "+fmt.Sprintf("%q", prefix)+" enables dot-all")
			default:
				rr.Bad(f, key, f.Pos(), fmt.Sprintf("`?` and `*` are translated to `.` atoms but the expression's constant prefix %q does not enable (?s): they do not match a newline", prefix))
			}
			// capture group
			opens, closes := 0, 0
			for _, w := range pre {
				if w.bit == "" {
					opens += strings.Count(strings.ReplaceAll(w.text, "(?", ""), "(")
				}
			}
			for _, w := range post {
				if w.bit == "" {
					closes += strings.Count(w.text, ")")
				}
			}
			if opens == 1 && closes == 1 {
				rr.OK(f, "pattern.compile|one-group", f.Pos(), "wrapped", "exactly one capturing group around the alternatives (Match reads m[1])")
			} else {
				rr.Bad(f, "pattern.compile|one-group", f.Pos(), fmt.Sprintf("%d '(' before and %d ')' after the alternatives: Match's m[1] is not the whole match", opens, closes))
			}
			// anchors
			checkAnchor := func(ws []guardedWrite, ch, bit string) {
				key := "pattern.compile|anchor " + ch
				n := 0
				for _, w := range ws {
					if w.text != ch {
						continue
					}
					n++
					switch {
					case w.bit == "":
						rr.Bad(f, key, w.pos, "anchor "+ch+" is written unconditionally")
					case !w.exact || w.bit != bit:
						rr.Bad(f, key, w.pos, fmt.Sprintf("anchor %s is written under `%s`, not exactly mode&%s != 0 (Glob passes both bits, Match one)", ch, w.bit, bit))
					default:
						rr.OK(f, key, w.pos, "exact", "written under exactly mode&"+bit+" != 0")
					}
				}
				if n == 0 {
					rr.Bad(f, key, f.Pos(), "anchor "+ch+" is never written")
				}
			}
			checkAnchor(pre, "^", "Prefix")
			checkAnchor(post, "$", "Suffix")
			// TB3: glob's literal
			g := c.mustFn(rr, "pattern.glob")
			if g == nil {
				return
			}
			want := ""
			for _, w := range pre {
				if w.bit == "" || w.bit == "Prefix" || w.bit == "Suffix" {
					want += w.text
				}
			}
			want += `\.`
			gi := g.Info()
			found := false
			g.OwnNodes(func(n ast.Node) bool {
				call, ok := n.(*ast.CallExpr)
				if !ok || calleeName(gi, call) != "strings.HasPrefix" || len(call.Args) != 2 {
					return true
				}
				inner, ok := call.Args[0].(*ast.CallExpr)
				if !ok || calleeName(gi, inner) != "regexp.(*Regexp).String" {
					return true
				}
				found = true
				lit, _ := constStr(gi, call.Args[1])
				key := "pattern.glob|dot-prefix-literal"
				if lit == want {
					rr.OK(g, key, call.Pos(), "equal", fmt.Sprintf("%q is what compile emits for a component starting with a period", lit))
				} else {
					rr.Bad(g, key, call.Pos(), fmt.Sprintf("glob tests the compiled expression against %q but compile emits %q for a leading period: the hidden-file rule is decided wrongly", lit, want))
				}
				return true
			})
			if !found {
				rr.Unk(g, "pattern.glob|dot-prefix-literal", g.Pos(), "no strings.HasPrefix(rx.String(), …) test found")
			}
		}}
}

// TB4: the three "pattern-special" sets agree.
func ruleTB4() Rule {
	return Rule{ID: "TB4", Kind: "agreement", Floor: 2,
		Doc: "the characters field.pattern escapes in quoted text = the characters compile gives pattern meaning = the characters Glob's unquote treats as making a component non-literal",
		Run: func(c *Ctx, rr *core.RuleResult) {
			want := map[rune]bool{}
			// compile: top-level cases that do not simply escape or copy
			if f := c.mustFn(rr, "pattern.compile"); f != nil {
				for _, s := range switches(c.P, f) {
					if s.parent == nil && s.clauseFor('?') != nil && s.clauseFor('*') != nil {
						for _, cl := range s.clauses {
							if cl.isDflt || writesBackslashFirst(f.Info(), cl) {
								continue
							}
							for r := range cl.runes {
								if r < 0x80 && r != 0xFFFD {
									want[r] = true
								}
							}
						}
					}
				}
			}
			if len(want) == 0 {
				rr.Unkp(c.P, "pattern.compile|special-set", 0, "could not extract compile's pattern-special characters")
				return
			}
			wantS := runeSetString(want)
			// field.pattern: the IndexAny cut set
			if f := c.mustFn(rr, "interp.(*field).pattern"); f != nil {
				info := f.Info()
				n := 0
				c.regionNodes(f, func(_ *core.Func, x ast.Node) bool {
					call, ok := x.(*ast.CallExpr)
					if !ok || len(call.Args) != 2 {
						return true
					}
					cn := calleeName(info, call)
					if cn != "strings.IndexAny" {
						// any other search of a segment for a constant character set
						// (a fast path deciding that nothing needs escaping) must look
						// for at least the special set
						switch cn {
						case "strings.ContainsAny", "strings.LastIndexAny", "strings.ContainsRune", "strings.IndexByte", "strings.IndexRune", "strings.Contains", "strings.Index":
						default:
							return true
						}
						var set string
						if s, ok := constStr(info, call.Args[1]); ok {
							set = s
						} else if tv, ok := info.Types[call.Args[1]]; ok && tv.Value != nil && tv.Value.Kind() == constant.Int {
							if v, exact := constant.Int64Val(tv.Value); exact {
								set = string(rune(v))
							}
						} else {
							return true
						}
						got := map[rune]bool{}
						for _, r := range set {
							got[r] = true
						}
						missing := map[rune]bool{}
						for r := range want {
							if !got[r] {
								missing[r] = true
							}
						}
						key := f.Name + "|pre-test-set"
						if len(missing) == 0 {
							rr.OK(f, key, call.Pos(), "superset", "searches for "+runeSetString(got))
						} else {
							rr.Bad(f, key, call.Pos(), fmt.Sprintf("a segment is searched for {%s} only; {%s} have pattern meaning too, so a quoted segment containing only those bypasses the escape", runeSetString(got), runeSetString(missing)))
						}
						return true
					}
					n++
					set, _ := constStr(info, call.Args[1])
					got := map[rune]bool{}
					for _, r := range set {
						got[r] = true
					}
					key := f.Name + "|escape-set"
					if runeSetString(got) == wantS {
						rr.OK(f, key, call.Pos(), "equal", "escapes "+wantS)
					} else {
						rr.Bad(f, key, call.Pos(), fmt.Sprintf("quoted text is escaped for {%s} but compile gives pattern meaning to {%s}: a quoted character can act as a pattern operator (or a literal backslash is doubled wrongly)", runeSetString(got), wantS))
					}
					return true
				})
				if n == 0 {
					rr.Unk(f, f.Name+"|escape-set", f.Pos(), "no strings.IndexAny cut set found")
				}
			}
			// unquote: special cases of its rune switch
			if f := c.mustFn(rr, "pattern.unquote"); f != nil {
				got := map[rune]bool{}
				for _, s := range switches(c.P, f) {
					for _, cl := range s.clauses {
						for r := range cl.runes {
							if r != 0xFFFD {
								got[r] = true
							}
						}
					}
				}
				// the same tests written as comparisons (`case r == '?' || r == '*'`, `if r == '['`)
				fi := f.Info()
				f.OwnNodes(func(n ast.Node) bool {
					be, ok := n.(*ast.BinaryExpr)
					if !ok || be.Op != token.EQL {
						return true
					}
					for _, e := range []ast.Expr{be.X, be.Y} {
						if _, isLit := ast.Unparen(e).(*ast.BasicLit); !isLit {
							continue
						}
						if v, isC := constInt(fi, e); isC && v != 0xFFFD && v > 0 {
							got[rune(v)] = true
						}
					}
					return true
				})
				key := f.Name + "|special-set"
				if runeSetString(got) == wantS {
					rr.OK(f, key, f.Pos(), "equal", "treats "+wantS+" as special")
				} else {
					rr.Bad(f, key, f.Pos(), fmt.Sprintf("unquote treats {%s} as special but compile {%s}: a component containing the difference is matched literally instead of as a pattern (or vice versa)", runeSetString(got), wantS))
				}
			}
		}}
}

// ---------------------------------------------------------------------------
// BRK1: bracket mode ends only at the closing bracket.
//
// compile translates a bracket expression member by member inside a labelled
// loop.  The regular expression it writes is inside a character class for as
// long as the pattern is; leaving the loop anywhere else than at `]` (or at an
// unterminated expression, which ends the whole pattern) makes the rest of the
// bracket expression be translated with top-level rules: `[[a*]` becomes
// `[[a.*]`, which matches `.`.

func ruleBRK1() Rule {
	return Rule{ID: "BRK1", Kind: "must", Floor: 2,
		Doc: "in pattern.compile every exit from the bracket-expression loop is either under the `]` case, or on a path that ends the pattern (an unterminated expression: the width was set to 0 or the enclosing pattern loop is left); an ordinary `[` inside a bracket expression does not end it",
		Run: func(c *Ctx, rr *core.RuleResult) {
			f := c.mustFn(rr, "pattern.compile")
			if f == nil {
				return
			}
			info := f.Info()
			// the labelled loop nested in the '[' clause of the top-level rune switch
			var loop *ast.LabeledStmt
			f.OwnNodes(func(n ast.Node) bool {
				ls, ok := n.(*ast.LabeledStmt)
				if !ok || loop != nil {
					return true
				}
				if _, isFor := ls.Stmt.(*ast.ForStmt); !isFor {
					return true
				}
				if cc := enclosingCase(c.P, ls); cc != nil {
					for _, e := range cc.List {
						if k, ok := constInt(info, e); ok && k == '[' {
							loop = ls
						}
					}
				}
				return true
			})
			if loop == nil {
				rr.Unk(f, f.Name+"|bracket loop", f.Pos(), "no labelled loop inside the '[' case found")
				return
			}
			label := info.Defs[loop.Label]
			n := 0
			ast.Inspect(loop.Stmt, func(x ast.Node) bool {
				br, ok := x.(*ast.BranchStmt)
				if !ok || br.Tok != token.BREAK || br.Label == nil || info.Uses[br.Label] != label {
					return true
				}
				n++
				key := fmt.Sprintf("%s|exit from bracket mode #%d", f.Name, n)
				// under case ']' of a switch on the current rune?
				closes := false
				for cc := enclosingCase(c.P, br); cc != nil; cc = enclosingCase(c.P, c.P.Parent(c.P.Parent(cc))) {
					for _, e := range cc.List {
						if k, ok := constInt(info, e); ok && k == ']' {
							closes = true
						}
					}
				}
				// unterminated: the statement before the break sets the width to zero
				unterminated := false
				if blk, ok := c.P.Parent(br).(*ast.BlockStmt); ok {
					if i := stmtIndex(c.P, blk.List, br); i > 0 {
						if as, ok := blk.List[i-1].(*ast.AssignStmt); ok && len(as.Rhs) == 1 {
							if k, ok := constInt(info, as.Rhs[0]); ok && k == 0 {
								unterminated = true
							}
						}
					}
				}
				switch {
				case closes:
					rr.OK(f, key, br.Pos(), "closing-bracket", "leaves bracket mode at `]`")
				case unterminated:
					rr.OK(f, key, br.Pos(), "unterminated", "the expression is unterminated: nothing of the pattern is left")
				default:
					rr.Bad(f, key, br.Pos(), "bracket mode is left before the closing `]`: the rest of the bracket expression is translated as top-level pattern text while the regular expression is still inside the class (`[[a*]` matches `.`, `[[\\d]` matches digits)")
				}
				return true
			})
			if n == 0 {
				rr.Unk(f, f.Name+"|bracket loop", loop.Pos(), "the bracket loop has no labelled exit")
			}
		}}
}

// ---------------------------------------------------------------------------
// ESC1: the separator scan steps over an escaped character.

func ruleESC1() Rule {
	return Rule{ID: "ESC1", Kind: "must", Floor: 2,
		Doc: "in the Unix indexSep, the case that recognises a backslash covers every backslash (no further condition lets a final backslash fall through to the separator case), and after a backslash that does not escape a separator the scan resumes behind the escaped character (two bytes on): `a\\\\/b` is a literal backslash followed by a separator",
		Run: func(c *Ctx, rr *core.RuleResult) {
			if c.P.GOOS == "windows" {
				// there the backslash is itself a separator: a final backslash is one, and the
				// character after a backslash that is no separator cannot be one either, so
				// resuming at it is the same as resuming behind it
				rr.OKp(c.P, "pattern.indexSep|backslash is a separator in this configuration", 0, "not-applicable", "ESC1 concerns the configurations in which `\\` only escapes")
				rr.OKp(c.P, "pattern.indexSep|backslash is a separator in this configuration (2)", 0, "not-applicable", "see above")
				return
			}
			f := c.mustFn(rr, "pattern.indexSep")
			if f == nil {
				return
			}
			info := f.Info()
			found := false
			f.OwnNodes(func(n ast.Node) bool {
				cc, ok := n.(*ast.CaseClause)
				if !ok || len(cc.List) != 1 {
					return true
				}
				// find the conjunct pat[i] == '\\'
				var atoms []ast.Expr
				var split func(e ast.Expr)
				split = func(e ast.Expr) {
					e = ast.Unparen(e)
					if be, ok := e.(*ast.BinaryExpr); ok && be.Op == token.LAND {
						split(be.X)
						split(be.Y)
						return
					}
					atoms = append(atoms, e)
				}
				split(cc.List[0])
				isBS := func(e ast.Expr) (ast.Expr, bool) {
					be, ok := e.(*ast.BinaryExpr)
					if !ok || be.Op != token.EQL {
						return nil, false
					}
					if k, ok := constInt(info, be.Y); ok && k == '\\' {
						if ix, ok := ast.Unparen(be.X).(*ast.IndexExpr); ok {
							return ix.Index, true
						}
					}
					return nil, false
				}
				var idx ast.Expr
				for _, a := range atoms {
					if i, ok := isBS(a); ok {
						idx = i
					}
				}
				if idx == nil {
					return true
				}
				found = true
				key := f.Name + "|backslash case covers every backslash"
				if len(atoms) == 1 {
					rr.OK(f, key, cc.Pos(), "complete", "no further condition on the backslash case")
				} else {
					rr.Bad(f, key, cc.Pos(), "the backslash case has a further condition (`"+exprStr(cc.List[0])+"`): a backslash that fails it - the last character of the pattern - falls through to the separator case and is returned as a separator (Glob(`\\`) expands to the root directory)")
				}
				// re-slices in this clause
				ast.Inspect(cc, func(x ast.Node) bool {
					as, ok := x.(*ast.AssignStmt)
					if !ok || len(as.Lhs) != 1 || len(as.Rhs) != 1 {
						return true
					}
					se, ok := ast.Unparen(as.Rhs[0]).(*ast.SliceExpr)
					if !ok || se.Low == nil || se.High != nil || exprStr(se.X) != exprStr(as.Lhs[0]) {
						return true
					}
					be, ok := ast.Unparen(se.Low).(*ast.BinaryExpr)
					key := f.Name + "|scan resumes behind the escaped character"
					if ok && be.Op == token.ADD && exprStr(be.X) == exprStr(idx) {
						if k, isConst := constInt(info, be.Y); isConst && k == 2 {
							rr.OK(f, key, as.Pos(), "skips-escaped", "resumes two bytes after the backslash")
							return true
						}
					}
					rr.Bad(f, key, as.Pos(), "after a backslash the scan resumes at `"+exprStr(se.Low)+"`, i.e. at the escaped character itself: the second backslash of `\\\\` is read as a new escape, so `a\\\\/b` is split as if the separator were escaped")
					return true
				})
				return true
			})
			if !found {
				rr.Unk(f, f.Name+"|backslash case", f.Pos(), "no case testing for a backslash found in indexSep")
			}
		}}
}

// ---------------------------------------------------------------------------
// SM1: the match Match returns and the match it continues from are one result.

func ruleSM1() Rule {
	return Rule{ID: "SM1", Kind: "must-not", Floor: 1,
		Doc: "Match answers only through the compiled regular expression: every successful return hands back an element of a FindStringSubmatch result (SM2). It narrows a suffix match by matching again behind the first character of the current match. What it returns (the capture group) and what it continues from (the whole match) are elements of one FindStringSubmatch result: no element of such a result is ever assigned on its own - shortening m[0] by hand (to step over a byte that does not decode) leaves the capture group of the longer match in place, and that is what gets returned",
		Run: func(c *Ctx, rr *core.RuleResult) {
			f := c.mustFn(rr, "pattern.Match")
			if f == nil {
				return
			}
			n := 0
			bad := 0
			c.regionNodes(f, func(g *core.Func, x ast.Node) bool {
				info := g.Info()
				// variables bound to a FindStringSubmatch result
				switch s := x.(type) {
				case *ast.CallExpr:
					if strings.HasSuffix(calleeName(info, s), ".FindStringSubmatch") {
						n++
					}
				case *ast.AssignStmt:
					for _, l := range s.Lhs {
						ix, ok := ast.Unparen(l).(*ast.IndexExpr)
						if !ok {
							continue
						}
						id, ok := ast.Unparen(ix.X).(*ast.Ident)
						if !ok {
							continue
						}
						obj := info.Uses[id]
						if obj == nil || !boundToSubmatch(c, g, obj) {
							continue
						}
						bad++
						rr.Bad(g, f.Name+"|"+normExpr(info, l)+" assigned", s.Pos(), "an element of a FindStringSubmatch result is assigned on its own: the capture group that will be returned no longer belongs to the match the loop continues from (a subject with an invalid byte or U+FFFD gets a longer match than the smallest)")
					}
				}
				return true
			})
			// SM2: what Match returns on success comes out of the regular expression
			info := f.Info()
			f.OwnNodes(func(x ast.Node) bool {
				ret, ok := x.(*ast.ReturnStmt)
				if !ok || len(ret.Results) != 2 || !isNilIdent(info, ret.Results[1]) {
					return true
				}
				key := f.Name + "|return " + normExpr(info, ret.Results[0])
				if ix, ok := ast.Unparen(ret.Results[0]).(*ast.IndexExpr); ok {
					if id, ok := ast.Unparen(ix.X).(*ast.Ident); ok && boundToSubmatch(c, f, info.Uses[id]) {
						rr.OK(f, key, ret.Pos(), "submatch", "the result is an element of a FindStringSubmatch result")
						return true
					}
				}
				bad++
				rr.Bad(f, key, ret.Pos(), "Match reports success with a value that does not come out of the compiled regular expression: a second matcher in front of compile (a literal fast path) has to agree with the translation on every escape, bracket and malformed pattern")
				return true
			})
			if n == 0 {
				rr.Unk(f, f.Name+"|FindStringSubmatch", f.Pos(), "Match does not call FindStringSubmatch: idiom not recognised")
			} else if bad == 0 {
				rr.OK(f, f.Name+"|submatch results replaced as a whole", f.Pos(), "whole", fmt.Sprintf("%d FindStringSubmatch call(s); no element of a result is assigned", n))
			}
		}}
}

// boundToSubmatch reports whether obj is assigned from a FindStringSubmatch
// call (directly, or from another variable that is) in g.
func boundToSubmatch(c *Ctx, g *core.Func, obj types.Object) bool {
	info := g.Info()
	found := false
	seen := map[types.Object]bool{}
	var look func(o types.Object, depth int)
	look = func(o types.Object, depth int) {
		if seen[o] || depth > 3 || found {
			return
		}
		seen[o] = true
		visit := func(x ast.Node) bool {
			as, ok := x.(*ast.AssignStmt)
			if !ok || len(as.Lhs) != len(as.Rhs) {
				return true
			}
			for i, l := range as.Lhs {
				id, ok := l.(*ast.Ident)
				if !ok || info.ObjectOf(id) != o {
					continue
				}
				r := ast.Unparen(as.Rhs[i])
				if call, ok := r.(*ast.CallExpr); ok && strings.HasSuffix(calleeName(info, call), ".FindStringSubmatch") {
					found = true
				}
				if rid, ok := r.(*ast.Ident); ok {
					if ro := info.Uses[rid]; ro != nil {
						look(ro, depth+1)
					}
				}
			}
			return true
		}
		ast.Inspect(g.Root().Body, visit)
	}
	look(obj, 0)
	return found
}
