package rules

import (
	"fmt"
	"go/ast"
	"go/token"
	"go/types"
	"sort"
	"strings"

	"verif/sa/core"
)

// ---------------------------------------------------------------------------
// TB5: closing-token widths in End().

func ruleTB5() Rule {
	return Rule{ID: "TB5", Kind: "agreement", Floor: 5,
		Doc: "for every End() that returns field.shift(n), n equals the length of the spelling of the token the grammar (or the lexer's copy) stores in that field",
		Run: func(c *Ctx, rr *core.RuleResult) {
			gi := c.grammar("parser")
			if gi.Err != nil {
				rr.Unkp(c.P, "parser|grammar", 0, gi.Err.Error())
				return
			}
			ops, err := c.opsTable("parser")
			if err != nil {
				rr.Unkp(c.P, "parser|ops", 0, err.Error())
				return
			}
			words := c.wordsTable()
			spell := map[string]string{}
			for k, v := range ops {
				spell[k] = v
			}
			for sp, tok := range words {
				spell[tok] = sp
			}
			info := c.P.Pkgs["parser"].TypesInfo
			// field -> set of spellings, from the reduce actions
			width := map[string]map[string]bool{}
			note := func(field, sp string) {
				if width[field] == nil {
					width[field] = map[string]bool{}
				}
				width[field][sp] = true
			}
			for k, cc := range gi.Checked.Cases {
				if k < 1 || k > len(gi.G.Prods) {
					continue
				}
				prod := gi.G.Prods[k-1]
				ast.Inspect(cc, func(n ast.Node) bool {
					u, ok := n.(*ast.UnaryExpr)
					if !ok || u.Op != token.AND {
						return true
					}
					cl, ok := u.X.(*ast.CompositeLit)
					if !ok {
						return true
					}
					tn := strings.TrimPrefix(namedOrLit(info.Types[cl].Type), "ast.")
					for _, el := range cl.Elts {
						kv, ok := el.(*ast.KeyValueExpr)
						if !ok {
							continue
						}
						// yyDollar[i].token.pos
						se, ok := kv.Value.(*ast.SelectorExpr)
						if !ok || se.Sel.Name != "pos" {
							continue
						}
						if i, fld, isVal, ok := dollar(se.X); ok && !isVal && fld == "token" && i >= 1 && i <= len(prod.RHS) {
							sym := prod.RHS[i-1]
							// nonterminals of token type stand for a set of terminals
							for _, t := range terminalsOf(gi.G, sym) {
								if sp, ok := spell[t]; ok {
									note(tn+"."+exprStr(kv.Key), sp)
								}
							}
						}
					}
					return true
				})
			}
			// fields that hold the position of an opening one-character delimiter whose closing
			// counterpart has the same spelling: the end of an empty pair is two characters on
			paired := map[string]bool{}
			// copies made by the lexer (CmdSubst.Right, ArithExp.Right)
			for _, f := range c.funcsOfPkg("parser", false) {
				fi := f.Info()
				f.OwnNodes(func(n ast.Node) bool {
					cl, ok := n.(*ast.CompositeLit)
					if !ok {
						return true
					}
					tn := namedOrLit(fi.Types[cl].Type)
					if !strings.HasPrefix(tn, "ast.") {
						return true
					}
					// a node the lexer builds itself with the spelling of its one-character token
					// next to the position (`&ast.Quote{TokPos: l.pos, Tok: string(r)}`)
					oneRune := false
					for _, el := range cl.Elts {
						if kv, ok := el.(*ast.KeyValueExpr); ok {
							if conv, isCall := ast.Unparen(kv.Value).(*ast.CallExpr); isCall && len(conv.Args) == 1 {
								if tv, has := fi.Types[conv.Fun]; has && tv.IsType() && tv.Type.String() == "string" {
									if at, hasA := fi.Types[conv.Args[0]]; hasA && at.Type != nil && at.Type.String() == "rune" {
										oneRune = true
									}
								}
							}
						}
					}
					for _, el := range cl.Elts {
						kv, ok := el.(*ast.KeyValueExpr)
						if !ok {
							continue
						}
						if oneRune && strings.HasSuffix(exprStr(kv.Key), "Pos") {
							if tv, has := fi.Types[kv.Value]; has && tv.Type != nil && strings.HasSuffix(tv.Type.String(), "ast.Pos") {
								note(strings.TrimPrefix(tn, "ast.")+"."+exprStr(kv.Key), "\x00")
								paired[strings.TrimPrefix(tn, "ast.")+"."+exprStr(kv.Key)] = true
							}
						}
						if v := core.FieldOf(fi, kv.Value); v != nil && v.Pkg() != nil && v.Pkg().Name() == "ast" {
							src := ownerOfField(fi, kv.Value) + "." + v.Name()
							for sp := range width[src] {
								note(strings.TrimPrefix(tn, "ast.")+"."+exprStr(kv.Key), sp)
							}
						}
					}
					return true
				})
			}
			// End methods
			for _, f := range c.methodsNamed("ast", "End") {
				fi := f.Info()
				f.OwnNodes(func(n ast.Node) bool {
					call, ok := n.(*ast.CallExpr)
					if !ok {
						return true
					}
					var posExpr, widthExpr ast.Expr
					if se, ok := call.Fun.(*ast.SelectorExpr); ok && len(call.Args) == 1 && strings.HasSuffix(calleeName(fi, call), "ast.Pos.shift") {
						posExpr, widthExpr = se.X, call.Args[0]
					} else if pi, ni, ok := c.shiftWrapper(fi, call); ok && pi < len(call.Args) && ni < len(call.Args) {
						// a helper of the package that shifts the position it is handed by the width it is handed
						posExpr, widthExpr = call.Args[pi], call.Args[ni]
					} else {
						return true
					}
					v := core.FieldOf(fi, posExpr)
					nv, isConst := constInt(fi, widthExpr)
					if v == nil || !isConst {
						return true
					}
					field := ownerOfField(fi, posExpr) + "." + v.Name()
					key := f.Name + "|" + exprStr(call)
					sps := width[field]
					if len(sps) == 0 {
						rr.Unk(f, key, call.Pos(), "no reduce action or lexer copy stores a token position in "+field)
						return true
					}
					var bad []string
					for sp := range sps {
						if len(sp) != int(nv) && !(paired[field] && int(nv) == 2*len(sp)) {
							bad = append(bad, sp)
						}
					}
					if len(bad) == 0 {
						var all []string
						for sp := range sps {
							all = append(all, sp)
						}
						sort.Strings(all)
						rr.OK(f, key, call.Pos(), "equal", fmt.Sprintf("%s holds the position of %q", field, all))
					} else {
						rr.Bad(f, key, call.Pos(), fmt.Sprintf("End() adds %d to %s, which holds the position of %q: the end position is off", nv, field, bad))
					}
					return true
				})
			}
		}}
}

func terminalsOf(g *Grammar, sym string) []string {
	if g.IsTerminal(sym) {
		return []string{sym}
	}
	var out []string
	for _, p := range g.Prods {
		if p.LHS == sym && len(p.RHS) >= 1 && g.IsTerminal(p.RHS[0]) {
			out = append(out, p.RHS[0])
		}
	}
	return out
}

func ownerOfField(info *types.Info, e ast.Expr) string {
	se, ok := ast.Unparen(e).(*ast.SelectorExpr)
	if !ok {
		return ""
	}
	t := info.Types[se.X].Type
	if t == nil {
		return ""
	}
	return strings.TrimPrefix(strings.TrimPrefix(namedOrLit(t), "*"), "ast.")
}

// ---------------------------------------------------------------------------
// TB6: the printer reads every semantic AST field and every Config field.

func ruleTB6() Rule {
	return Rule{ID: "TB6", Kind: "must", Floor: 40,
		Doc: "every exported non-position field of every ast node type, and every field of printer.Config, is read somewhere in package printer (a field that is never read cannot be printed)",
		Run: func(c *Ctx, rr *core.RuleResult) {
			read := map[*types.Var]bool{}
			for _, f := range c.funcsOfPkg("printer", false) {
				info := f.Info()
				lhs := map[ast.Expr]bool{}
				f.OwnNodes(func(n ast.Node) bool {
					if as, ok := n.(*ast.AssignStmt); ok && as.Tok == token.ASSIGN {
						for _, l := range as.Lhs {
							lhs[l] = true
						}
					}
					return true
				})
				f.OwnNodes(func(n ast.Node) bool {
					if se, ok := n.(*ast.SelectorExpr); ok && !lhs[se] {
						if v := core.FieldOf(info, se); v != nil {
							read[v] = true
						}
					}
					return true
				})
			}
			check := func(pkg string, filter func(tn *types.TypeName) bool, skipPos bool) {
				scope := c.P.Pkgs[pkg].Types.Scope()
				for _, name := range scope.Names() {
					tn, ok := scope.Lookup(name).(*types.TypeName)
					if !ok || !filter(tn) {
						continue
					}
					st, ok := tn.Type().Underlying().(*types.Struct)
					if !ok {
						continue
					}
					for i := 0; i < st.NumFields(); i++ {
						fv := st.Field(i)
						if !fv.Exported() {
							continue
						}
						if skipPos && namedTypeName(fv.Type()) == "ast.Pos" {
							continue
						}
						key := pkg + "." + name + "." + fv.Name()
						if read[fv] {
							rr.OKp(c.P, key, fv.Pos(), "read", "read in package printer")
						} else {
							rr.Badp(c.P, key, fv.Pos(), "this field is never read in package printer: its content cannot appear in the output")
						}
					}
				}
			}
			nodeIface := c.P.Pkgs["ast"].Types.Scope().Lookup("Node").Type().Underlying().(*types.Interface)
			check("ast", func(tn *types.TypeName) bool {
				return tn.Name() != "Pos" && (types.Implements(tn.Type(), nodeIface) || types.Implements(types.NewPointer(tn.Type()), nodeIface))
			}, true)
			check("printer", func(tn *types.TypeName) bool { return tn.Name() == "Config" }, false)
		}}
}

// TB6 exceptions: fields that are positions only are skipped above; Comment
// text is printed by comment().

// ---------------------------------------------------------------------------
// TB7 / TB11: escape set and blank set.

func ruleTB7() Rule {
	return Rule{ID: "TB7", Kind: "agreement", Floor: 2,
		Doc: "inside double quotes (and unquoted here-documents) the backslash escapes exactly POSIX's set: newline, double quote, dollar, backslash, backquote; the alias blank test uses the scanner's blank set (TB11)",
		Run: func(c *Ctx, rr *core.RuleResult) {
			f := c.mustFn(rr, "parser.(*lexer).esc")
			if f != nil {
				want := map[rune]bool{'\n': true, '"': true, '$': true, '\\': true, '`': true}
				sws := switches(c.P, f)
				if len(sws) == 0 {
					rr.Unk(f, f.Name+"|switch", f.Pos(), "no switch in esc")
				} else {
					got := map[rune]bool{}
					for _, cl := range sws[0].clauses {
						if !cl.isDflt {
							for r := range cl.runes {
								got[r] = true
							}
						}
					}
					key := f.Name + "|escape-set"
					if runeSetString(got) == runeSetString(want) {
						rr.OK(f, key, sws[0].sw.Pos(), "equal", "escapes {"+runeSetString(got)+"}")
					} else {
						rr.Bad(f, key, sws[0].sw.Pos(), fmt.Sprintf("esc treats {%s} as escapable, POSIX (XCU 2.2.3) says {%s}: a backslash inside double quotes is kept or dropped wrongly", runeSetString(got), runeSetString(want)))
					}
				}
			}
			// TB11
			s := c.mustFn(rr, "parser.(*lexer).subst")
			raw := c.mustFn(rr, "parser.(*lexer).scanRawToken")
			if s == nil || raw == nil {
				return
			}
			blank := map[rune]bool{}
			for _, sw := range switches(c.P, raw) {
				if cl := sw.clauseFor(' '); cl != nil && sw.parent == nil {
					for r := range cl.runes {
						blank[r] = true
					}
				}
			}
			if len(blank) == 0 {
				rr.Unk(raw, raw.Name+"|blank-case", raw.Pos(), "no case containing ' ' in the raw scanner")
				return
			}
			info := s.Info()
			n := 0
			s.OwnNodes(func(x ast.Node) bool {
				call, ok := x.(*ast.CallExpr)
				if !ok || len(call.Args) != 2 {
					return true
				}
				name := calleeName(info, call)
				if name != "strings.TrimRight" && name != "strings.TrimRightFunc" && name != "strings.Trim" {
					return true
				}
				n++
				set, _ := constStr(info, call.Args[1])
				got := map[rune]bool{}
				for _, r := range set {
					got[r] = true
				}
				key := s.Name + "|blank-cutset"
				if runeSetString(got) == runeSetString(blank) {
					rr.OK(s, key, call.Pos(), "equal", "alias values are trimmed of {"+runeSetString(got)+"}, the scanner's blanks")
				} else {
					rr.Bad(s, key, call.Pos(), fmt.Sprintf("an alias value 'ends in a blank' for {%s} but the scanner's blanks are {%s}", runeSetString(got), runeSetString(blank)))
				}
				return true
			})
			if n == 0 {
				rr.Unk(s, s.Name+"|blank-cutset", s.Pos(), "no strings.TrimRight call in subst")
			}
		}}
}

// ---------------------------------------------------------------------------
// TB8: special-parameter sets agree.

// oneCharNames collects the one-character names a function (with its private
// helpers) distinguishes: single-character case labels of its switches, and the
// characters of a constant string a name's character is looked up in
// (strings.IndexByte(set, s[0]), strings.ContainsRune(set, r)).
func oneCharNames(c *Ctx, f *core.Func, got map[rune]bool) {
	for _, g := range c.region(f) {
		for _, sw := range switches(c.P, g) {
			for _, cl := range sw.clauses {
				for s := range cl.strs {
					if len(s) == 1 {
						got[rune(s[0])] = true
					}
				}
			}
		}
	}
	c.regionNodes(f, func(g *core.Func, n ast.Node) bool {
		// a lookup in a package-level table that is never written: its keys
		if ix, ok := n.(*ast.IndexExpr); ok {
			for _, k := range c.globalMapKeys(g.Info(), ix.X) {
				if len(k) == 1 {
					got[rune(k[0])] = true
				}
			}
			return true
		}
		// name == "@": a comparison of a string with a one-character constant
		if be, ok := n.(*ast.BinaryExpr); ok && be.Op == token.EQL {
			for _, side := range []ast.Expr{be.X, be.Y} {
				if k, isC := constStr(g.Info(), side); isC && len(k) == 1 {
					other := be.X
					if side == be.X {
						other = be.Y
					}
					if tv, has := g.Info().Types[other]; has && tv.Value == nil {
						got[rune(k[0])] = true
					}
				}
			}
			return true
		}
		call, ok := n.(*ast.CallExpr)
		if !ok || len(call.Args) != 2 {
			return true
		}
		switch calleeName(g.Info(), call) {
		case "strings.IndexByte", "strings.IndexRune", "strings.ContainsRune": // one character by type
			if set, ok := constStr(g.Info(), call.Args[0]); ok {
				for _, r := range set {
					got[r] = true
				}
			}
		}
		return true
	})
}

func ruleTB8() Rule {
	return Rule{ID: "TB8", Kind: "agreement", Floor: 4,
		Doc: "the special-parameter set is the same in isSpParam, in the two parameter-expansion scanners and in Get: @ * # ? - $ ! 0",
		Run: func(c *Ctx, rr *core.RuleResult) {
			want := "! # $ * - 0 ? @"
			norm := func(m map[rune]bool) string {
				var s []string
				for r := range m {
					s = append(s, string(r))
				}
				sort.Strings(s)
				return strings.Join(s, " ")
			}
			// isSpParam
			if f := c.mustFn(rr, "interp.(*ExecEnv).isSpParam"); f != nil {
				got := map[rune]bool{}
				oneCharNames(c, f, got)
				key := f.Name + "|set"
				if norm(got) == want {
					rr.OK(f, key, f.Pos(), "equal", norm(got))
				} else {
					rr.Bad(f, key, f.Pos(), fmt.Sprintf("isSpParam accepts {%s}, POSIX's special parameters are {%s}: Set's guard and the arithmetic-mode test follow it", norm(got), want))
				}
			}
			// Get: single-character switch ∪ {@,*}
			if f := c.mustFn(rr, "interp.(*ExecEnv).Get"); f != nil {
				got := map[rune]bool{'@': true, '*': true}
				oneCharNames(c, f, got)
				key := f.Name + "|set"
				if norm(got) == want {
					rr.OK(f, key, f.Pos(), "equal", "Get synthesises # ? - $ ! 0; @ and * are handled by expandParam")
				} else {
					rr.Bad(f, key, f.Pos(), fmt.Sprintf("Get synthesises {%s} (with @ *), the special parameters are {%s}", norm(got), want))
				}
			}
			// scanParamExp: the clause containing '@'
			for _, spec := range []struct {
				fn    string
				extra []rune
			}{{"parser.(*lexer).scanParamExp", nil}, {"parser.(*lexer).scanParamExpInBraces", []rune{'#'}}} {
				f := c.mustFn(rr, spec.fn)
				if f == nil {
					continue
				}
				var got map[rune]bool
				other := map[*core.Func]bool{c.fn("parser.(*lexer).scanParamExp"): true, c.fn("parser.(*lexer).scanParamExpInBraces"): true}
				for _, ff := range c.region(f) {
					if got != nil || (ff != f && other[ff]) {
						continue // the function's own clause first; the sibling scanner is checked on its own
					}
					for _, sw := range switches(c.P, ff) {
						if cl := sw.clauseFor('@'); cl != nil {
							got = map[rune]bool{}
							for r := range cl.runes {
								got[r] = true
							}
						}
					}
				}
				key := f.Name + "|set"
				if got == nil {
					rr.Unk(f, key, f.Pos(), "no case containing '@'")
					continue
				}
				for _, r := range spec.extra {
					got[r] = true
				}
				if norm(got) == want {
					rr.OK(f, key, f.Pos(), "equal", norm(got))
				} else {
					rr.Bad(f, key, f.Pos(), fmt.Sprintf("the scanner recognises {%s} as special parameters, the set is {%s}", norm(got), want))
				}
			}
		}}
}

// ---------------------------------------------------------------------------
// TB10: parameter-expansion operators produced = handled.

func ruleTB10() Rule {
	return Rule{ID: "TB10", Kind: "agreement", Floor: 12,
		Doc: "the operator strings scanParamExpInBraces can store in ParamExp.Op are exactly the ones expandParam handles (13 POSIX operators plus the length form)",
		Run: func(c *Ctx, rr *core.RuleResult) {
			f := c.mustFn(rr, "parser.(*lexer).scanParamExpInBraces")
			g := c.mustFn(rr, "interp.(*ExecEnv).expandParam")
			if f == nil || g == nil {
				return
			}
			info := f.Info()
			produced := map[string]bool{}
			caseRunes := func(n ast.Node) []rune {
				if h := c.P.EnclosingFunc(n); h != nil {
					info = h.Info()
				}
				cc := enclosingCase(c.P, n)
				var out []rune
				if cc != nil {
					for _, e := range cc.List {
						if v, ok := constInt(info, e); ok {
							out = append(out, rune(v))
						}
					}
				}
				return out
			}
			undecided := false
			c.regionNodes(f, func(fn *core.Func, n ast.Node) bool {
				info := fn.Info()
				as, ok := n.(*ast.AssignStmt)
				if !ok || len(as.Lhs) != 1 || !fieldSel(info, as.Lhs[0], "ast", "ParamExp", "Op") {
					return true
				}
				rhs := ast.Unparen(as.Rhs[0])
				switch as.Tok {
				case token.ASSIGN:
					if s, ok := constStr(info, rhs); ok {
						produced[s] = true
						return true
					}
					prefix := ""
					if be, ok := rhs.(*ast.BinaryExpr); ok && be.Op == token.ADD {
						if s, ok := constStr(info, be.X); ok {
							prefix = s
							rhs = ast.Unparen(be.Y)
						}
					}
					if call, ok := rhs.(*ast.CallExpr); ok && len(call.Args) == 1 {
						if tv, ok := info.Types[call.Fun]; ok && tv.IsType() {
							// string(r) under a case listing the runes; r may have been saved from an outer case
							rs := caseRunes(as)
							if len(rs) > 0 {
								for _, r := range rs {
									produced[prefix+string(r)] = true
								}
								return true
							}
						}
					}
					undecided = true
					rr.Unk(f, f.Name+"|"+exprStr(as.Lhs[0])+"="+exprStr(as.Rhs[0]), as.Pos(), "operator value is not a constant, string(r) under a rune case, or a constant prefix plus that")
				case token.ADD_ASSIGN:
					// pe.Op += s, doubling the rune of the enclosing case
					for _, r := range caseRunes(as) {
						produced[string(r)+string(r)] = true
					}
				}
				return true
			})
			if undecided {
				return
			}
			// handled: case labels of switches on pe.Op and == comparisons with pe.Op
			handled := map[string]bool{}
			for _, gg := range c.region(g) {
				gi := gg.Info()
				for _, sw := range switches(c.P, gg) {
					if sw.sw.Tag != nil && fieldSel(gi, sw.sw.Tag, "ast", "ParamExp", "Op") {
						for _, cl := range sw.clauses {
							for s := range cl.strs {
								handled[s] = true
							}
						}
					}
				}
			}
			c.regionNodes(g, func(gg *core.Func, n ast.Node) bool {
				ginfo := gg.Info()
				if be, ok := n.(*ast.BinaryExpr); ok && be.Op == token.EQL && fieldSel(ginfo, be.X, "ast", "ParamExp", "Op") {
					if s, ok := constStr(ginfo, be.Y); ok {
						handled[s] = true
					}
				}
				return true
			})
			delete(produced, "")
			delete(handled, "")
			var all []string
			for s := range produced {
				all = append(all, s)
			}
			for s := range handled {
				if !produced[s] {
					all = append(all, s)
				}
			}
			sort.Strings(all)
			for _, s := range all {
				key := "ParamExp.Op " + s
				switch {
				case produced[s] && handled[s]:
					rr.OKp(c.P, key, g.Pos(), "both", "produced by the scanner and handled by expandParam")
				case produced[s]:
					rr.Badp(c.P, key, f.Pos(), fmt.Sprintf("the scanner can produce operator %q but expandParam has no arm for it: ${p%sw} expands to nothing", s, s))
				default:
					rr.Badp(c.P, key, g.Pos(), fmt.Sprintf("expandParam handles operator %q, which the scanner never produces", s))
				}
			}
		}}
}

// ---------------------------------------------------------------------------
// TB13: nil-encoded fields are tested against nil.

func ruleTB13() Rule {
	return Rule{ID: "TB13", Kind: "must", Floor: 3,
		Doc: "ParamExp.Word == nil encodes ${#p} and Redir.Heredoc != nil encodes 'has a here-document' (the parser produces non-nil empty values otherwise); the consumers that decide on these encodings compare with nil, not with a length",
		Run: func(c *Ctx, rr *core.RuleResult) {
			// printer.redir: the if that appends to the stack
			if f := c.mustFn(rr, "printer.(*printer).redir"); f != nil {
				info := f.Info()
				found := false
				f.OwnNodes(func(n ast.Node) bool {
					ifs, ok := n.(*ast.IfStmt)
					if !ok {
						return true
					}
					pushes := false
					ast.Inspect(ifs.Body, func(x ast.Node) bool {
						if call, ok := x.(*ast.CallExpr); ok && isBuiltinCall(info, call, "append") {
							pushes = true
						}
						return true
					})
					if !pushes {
						return true
					}
					found = true
					key := f.Name + "|heredoc-test"
					be, ok := ast.Unparen(ifs.Cond).(*ast.BinaryExpr)
					if ok && be.Op == token.NEQ && isNilIdent(info, be.Y) && fieldSel(info, be.X, "ast", "Redir", "Heredoc") {
						rr.OK(f, key, ifs.Pos(), "nil-test", "the body is queued iff Heredoc != nil")
					} else {
						rr.Bad(f, key, ifs.Pos(), "the here-document is queued under `"+exprStr(ifs.Cond)+"`, not `Heredoc != nil`: an empty here-document (non-nil, zero parts) loses its delimiter line")
					}
					return true
				})
				if !found {
					rr.Unk(f, f.Name+"|heredoc-test", f.Pos(), "no conditional append to the here-document stack")
				}
			}
			// printer.paramExp: the clause writing "${#"
			if f := c.mustFn(rr, "printer.(*printer).paramExp"); f != nil {
				info := f.Info()
				found := false
				for _, sw := range switches(c.P, f) {
					for _, cl := range sw.clauses {
						writesLen := false
						ast.Inspect(cl.cc, func(x ast.Node) bool {
							if bl, ok := x.(*ast.BasicLit); ok && strings.Contains(bl.Value, "${#") {
								writesLen = true
							}
							return true
						})
						if !writesLen || cl.isDflt {
							continue
						}
						found = true
						key := f.Name + "|length-form-test"
						ok := false
						for _, e := range cl.cc.List {
							for _, cj := range conj(e) {
								if be, isBE := ast.Unparen(cj).(*ast.BinaryExpr); isBE && be.Op == token.EQL && isNilIdent(info, be.Y) && fieldSel(info, be.X, "ast", "ParamExp", "Word") {
									ok = true
								}
							}
						}
						if ok {
							rr.OK(f, key, cl.cc.Pos(), "nil-test", "${#p} is printed iff Word == nil")
						} else {
							rr.Bad(f, key, cl.cc.Pos(), "the length form is chosen without testing Word == nil: ${p#} (empty pattern) prints as ${#p}")
						}
					}
				}
				if !found {
					rr.Unk(f, f.Name+"|length-form-test", f.Pos(), "no case writing \"${#\"")
				}
			}
			// interp.expandParam: the clause counting runes
			if f := c.mustFn(rr, "interp.(*ExecEnv).expandParam"); f != nil {
				info := f.Info()
				found := false
				f.OwnNodes(func(n ast.Node) bool {
					call, ok := n.(*ast.CallExpr)
					if !ok || calleeName(info, call) != "unicode/utf8.RuneCountInString" {
						return true
					}
					found = true
					key := f.Name + "|length-form-test"
					ok = false
					for x := c.P.Parent(call); x != nil; x = c.P.Parent(x) {
						if cc, isCC := x.(*ast.CaseClause); isCC {
							for _, e := range cc.List {
								if be, isBE := ast.Unparen(e).(*ast.BinaryExpr); isBE && be.Op == token.EQL && isNilIdent(info, be.Y) && fieldSel(info, be.X, "ast", "ParamExp", "Word") {
									ok = true
								}
							}
						}
					}
					if ok {
						rr.OK(f, key, call.Pos(), "nil-test", "the length arm is selected by Word == nil")
					} else {
						rr.Bad(f, key, call.Pos(), "the length arm is not selected by `pe.Word == nil`: ${p#} with an empty pattern is taken for ${#p}")
					}
					return true
				})
				if !found {
					rr.Unk(f, f.Name+"|length-form-test", f.Pos(), "no RuneCountInString call (see BR2)")
				}
			}
		}}
}

// globalMapKeys returns the constant string keys of the map literal a
// package-level variable is initialised with, provided the variable is never
// written (constantGlobal); nil otherwise.
func (c *Ctx) globalMapKeys(info *types.Info, e ast.Expr) []string {
	id, ok := ast.Unparen(e).(*ast.Ident)
	if !ok {
		return nil
	}
	v, ok := info.Uses[id].(*types.Var)
	if !ok || v.Pkg() == nil || v.Parent() != v.Pkg().Scope() || !c.constantGlobal(v) {
		return nil
	}
	if _, isMap := v.Type().Underlying().(*types.Map); !isMap {
		return nil
	}
	var keys []string
	for _, pk := range c.P.Pkgs {
		if pk.Types != v.Pkg() {
			continue
		}
		for _, file := range pk.Syntax {
			ast.Inspect(file, func(n ast.Node) bool {
				vs, ok := n.(*ast.ValueSpec)
				if !ok {
					return true
				}
				for i, nm := range vs.Names {
					if pk.TypesInfo.Defs[nm] != types.Object(v) || i >= len(vs.Values) {
						continue
					}
					if cl, ok := vs.Values[i].(*ast.CompositeLit); ok {
						for _, el := range cl.Elts {
							if kv, ok := el.(*ast.KeyValueExpr); ok {
								if s, ok := constStr(pk.TypesInfo, kv.Key); ok {
									keys = append(keys, s)
								}
							}
						}
					}
				}
				return false
			})
		}
	}
	return keys
}

// shiftWrapper recognises a call of a function of package ast whose body
// returns <pos parameter>.shift(<int parameter>) and gives the positions of
// those two parameters.
func (c *Ctx) shiftWrapper(info *types.Info, call *ast.CallExpr) (posIdx, nIdx int, ok bool) {
	fo := core.StaticCallee(info, call)
	if fo == nil {
		return 0, 0, false
	}
	h := c.P.FuncOf(fo)
	if h == nil || h.Pkg.Name != "ast" || h.Body == nil || h.Type.Params == nil || (h.Decl != nil && h.Decl.Recv != nil) {
		return 0, 0, false
	}
	hi := h.Info()
	idx := map[types.Object]int{}
	k := 0
	for _, fld := range h.Type.Params.List {
		for _, nm := range fld.Names {
			idx[hi.Defs[nm]] = k
			k++
		}
	}
	found := false
	h.OwnNodes(func(n ast.Node) bool {
		sc, isCall := n.(*ast.CallExpr)
		if !isCall || len(sc.Args) != 1 {
			return true
		}
		se, isSel := sc.Fun.(*ast.SelectorExpr)
		if !isSel || !strings.HasSuffix(calleeName(hi, sc), "ast.Pos.shift") {
			return true
		}
		pid, ok1 := ast.Unparen(se.X).(*ast.Ident)
		nid, ok2 := ast.Unparen(sc.Args[0]).(*ast.Ident)
		if !ok1 || !ok2 {
			return true
		}
		pi, okp := idx[hi.Uses[pid]]
		ni, okn := idx[hi.Uses[nid]]
		if okp && okn {
			posIdx, nIdx, found = pi, ni, true
		}
		return true
	})
	return posIdx, nIdx, found
}
