package rules

import (
	"fmt"
	"go/ast"
	"go/token"
	"go/types"
	"sort"
	"strings"

	"verif/sa/core"
)

// ---------------------------------------------------------------------------
// GR3: typing and shape of the values the reduce actions build.

type aval struct {
	bottom   bool
	typ      string // sorted "|"-joined set of dynamic types; "" = unknown
	nonEmpty bool
	nonNil   bool
}

func joinAval(a, b aval) aval {
	if a.bottom {
		return b
	}
	if b.bottom {
		return a
	}
	out := aval{nonEmpty: a.nonEmpty && b.nonEmpty, nonNil: a.nonNil && b.nonNil}
	if a.typ != "" && b.typ != "" {
		set := map[string]bool{}
		for _, t := range strings.Split(a.typ+"|"+b.typ, "|") {
			set[t] = true
		}
		var ts []string
		for t := range set {
			ts = append(ts, t)
		}
		sort.Strings(ts)
		out.typ = strings.Join(ts, "|")
	}
	return out
}

// assertOK reports whether every dynamic type in the set satisfies an
// assertion to the type written as e.
func (g *gr3) assertOK(v aval, e ast.Expr) bool {
	if v.bottom || v.typ == "" {
		return false
	}
	want := g.info.Types[e].Type
	ws := namedOrLit(want)
	iface, isIface := want.Underlying().(*types.Interface)
	for _, t := range strings.Split(v.typ, "|") {
		if t == ws {
			continue
		}
		if !isIface {
			return false
		}
		tt := g.lookupType(t)
		if tt == nil || !types.Implements(tt, iface) {
			return false
		}
	}
	return true
}

// lookupType resolves "*ast.T" / "ast.T" back to a types.Type.
func (g *gr3) lookupType(s string) types.Type {
	ptr := strings.HasPrefix(s, "*")
	s = strings.TrimPrefix(s, "*")
	i := strings.Index(s, ".")
	if i < 0 {
		return nil
	}
	pk := g.c.P.Pkgs[s[:i]]
	if pk == nil {
		return nil
	}
	obj := pk.Types.Scope().Lookup(s[i+1:])
	if obj == nil {
		return nil
	}
	if ptr {
		return types.NewPointer(obj.Type())
	}
	return obj.Type()
}

// Word-valued terminals whose non-emptiness the lexer guarantees.
var terminalWordShape = map[string]string{
	"NAME":            "emitted only after len(l.word) == 1 && *ast.Lit && isName (lexSimpleCmd, lexFor)",
	"IO_NUMBER":       "returned by the raw scanner only for a single all-digit *ast.Lit",
	"ASSIGNMENT_WORD": "emitted only after isAssign(), which requires l.word[0] to be a *ast.Lit",
}

type gr3 struct {
	c     *Ctx
	gi    *GrammarInfo
	info  *types.Info
	vals  map[string]aval // per grammar symbol
	field map[string]aval // "T.F" -> joined value of every construction
	nfld  map[string]int
}

func (g *gr3) symVal(sym string) aval {
	if g.gi.G.IsTerminal(sym) {
		fld := g.gi.G.Tokens[sym]
		switch fld {
		case "word":
			_, ne := terminalWordShape[sym]
			return aval{typ: "ast.Word", nonEmpty: ne}
		case "token":
			return aval{typ: "parser.token", nonNil: true}
		}
		return aval{}
	}
	if v, ok := g.vals[sym]; ok {
		return v
	}
	return aval{bottom: true}
}

type actEnv struct {
	k      int
	prod   *Production
	locals map[types.Object]aval
	cur    *aval // value of $$ assigned so far
}

func (g *gr3) typeStr(e ast.Expr) string {
	if tv, ok := g.info.Types[e]; ok && tv.Type != nil {
		if _, isIface := tv.Type.Underlying().(*types.Interface); !isIface {
			return namedOrLit(tv.Type)
		}
	}
	return ""
}

func namedOrLit(t types.Type) string {
	return types.TypeString(t, func(p *types.Package) string { return p.Name() })
}

// dollar recognises yyDollar[i].f and yyVAL.f.
func dollar(e ast.Expr) (idx int, field string, isVal bool, ok bool) {
	se, isSel := ast.Unparen(e).(*ast.SelectorExpr)
	if !isSel {
		return
	}
	switch x := ast.Unparen(se.X).(type) {
	case *ast.IndexExpr:
		if id, isID := x.X.(*ast.Ident); isID && id.Name == "yyDollar" {
			if v, isInt := evalInt(x.Index); isInt {
				return int(v), se.Sel.Name, false, true
			}
		}
	case *ast.Ident:
		if x.Name == "yyVAL" {
			return 0, se.Sel.Name, true, true
		}
	}
	return
}

func (g *gr3) eval(e ast.Expr, env *actEnv) aval {
	e = ast.Unparen(e)
	if i, fld, isVal, ok := dollar(e); ok {
		if isVal {
			if env.cur != nil {
				return *env.cur
			}
			if len(env.prod.RHS) > 0 {
				return g.symVal(env.prod.RHS[0])
			}
			return aval{}
		}
		if i >= 1 && i <= len(env.prod.RHS) {
			v := g.symVal(env.prod.RHS[i-1])
			_ = fld
			return v
		}
		return aval{}
	}
	switch e := e.(type) {
	case *ast.TypeAssertExpr:
		v := g.eval(e.X, env)
		if e.Type == nil {
			return aval{}
		}
		tt := g.info.Types[e.Type].Type
		t := namedOrLit(tt)
		if v.bottom {
			return aval{bottom: true}
		}
		if _, isIface := tt.Underlying().(*types.Interface); isIface {
			// asserting to an interface keeps the set of dynamic types
			return aval{typ: v.typ, nonEmpty: v.nonEmpty, nonNil: v.nonNil}
		}
		if ix, ok := ast.Unparen(e.X).(*ast.IndexExpr); ok {
			if id, isID := ix.X.(*ast.Ident); !isID || id.Name != "yyDollar" {
				// element assertion (reasoned exception): ast.List values are
				// non-empty wherever the actions build them (checked below)
				return aval{typ: t, nonEmpty: t == "ast.List", nonNil: true}
			}
		}
		_, isPtr := tt.(*types.Pointer)
		return aval{typ: t, nonEmpty: v.nonEmpty, nonNil: v.nonNil || isPtr}
	case *ast.UnaryExpr:
		if e.Op == token.AND {
			if cl, ok := e.X.(*ast.CompositeLit); ok {
				return aval{typ: "*" + namedOrLit(g.info.Types[cl].Type), nonNil: true}
			}
		}
	case *ast.CompositeLit:
		t := g.info.Types[e].Type
		switch t.Underlying().(type) {
		case *types.Slice:
			return aval{typ: namedOrLit(t), nonEmpty: len(e.Elts) >= 1, nonNil: len(e.Elts) >= 1}
		}
		return aval{typ: namedOrLit(t)}
	case *ast.CallExpr:
		if isBuiltinCall(g.info, e, "append") && len(e.Args) >= 1 {
			v := g.eval(e.Args[0], env)
			out := aval{typ: g.typeStr(e)}
			if out.typ == "" {
				out.typ = v.typ
			}
			if e.Ellipsis.IsValid() {
				w := g.eval(e.Args[len(e.Args)-1], env)
				out.nonEmpty = (v.nonEmpty && !v.bottom) || (w.nonEmpty && !w.bottom)
			} else {
				out.nonEmpty = len(e.Args) >= 2 || (v.nonEmpty && !v.bottom)
			}
			out.nonNil = out.nonEmpty
			return out
		}
		if cl, _ := g.constructorCall(e, env); cl != nil {
			if tv, ok := g.info.Types[e]; ok && tv.Type != nil {
				_, isPtr := tv.Type.(*types.Pointer)
				return aval{typ: namedOrLit(tv.Type), nonNil: isPtr}
			}
		}
		return aval{typ: g.typeStr(e)}
	case *ast.Ident:
		obj := g.info.Uses[e]
		if v, ok := env.locals[obj]; ok {
			return v
		}
		return aval{typ: g.typeStr(e)}
	}
	return aval{typ: g.typeStr(e)}
}

// runAction interprets one reduce action and returns the value of $$.
func (g *gr3) runAction(k int, cc *ast.CaseClause, report func(kind, key string, pos token.Pos, ok bool, detail string)) aval {
	prod := g.gi.G.Prods[k-1]
	env := &actEnv{k: k, prod: prod, locals: map[types.Object]aval{}}
	var assigned []aval
	unconditional := false
	lhsField := g.gi.G.Types[prod.LHS]
	// the action block is the last statement of the case body
	var block *ast.BlockStmt
	for _, s := range cc.Body {
		if b, ok := s.(*ast.BlockStmt); ok {
			block = b
		}
	}
	if block == nil {
		if len(prod.RHS) > 0 {
			return g.symVal(prod.RHS[0])
		}
		return aval{}
	}
	var walk func(n ast.Node, top bool)
	walk = func(n ast.Node, top bool) {
		switch s := n.(type) {
		case *ast.BlockStmt:
			for _, st := range s.List {
				walk(st, top && s == block)
			}
			return
		case *ast.IfStmt:
			if s.Init != nil {
				walk(s.Init, false)
			}
			g.scanExpr(s.Cond, env, report)
			walk(s.Body, false)
			if s.Else != nil {
				walk(s.Else, false)
			}
			return
		case *ast.AssignStmt:
			for _, r := range s.Rhs {
				g.scanExpr(r, env, report)
			}
			for i, l := range s.Lhs {
				g.scanLhs(l, env, report)
				if i >= len(s.Rhs) || len(s.Lhs) != len(s.Rhs) {
					continue
				}
				if _, fld, isVal, ok := dollar(l); ok && isVal && fld == lhsField {
					v := g.eval(s.Rhs[i], env)
					assigned = append(assigned, v)
					env.cur = &v
					if top {
						unconditional = true
					}
					continue
				}
				if id, ok := l.(*ast.Ident); ok && s.Tok == token.DEFINE {
					if obj := g.info.Defs[id]; obj != nil {
						env.locals[obj] = g.eval(s.Rhs[i], env)
					}
				}
				// field stores x.F = e on AST nodes
				if se, ok := l.(*ast.SelectorExpr); ok {
					g.noteField(se, s.Rhs[i], env)
				}
			}
			return
		case *ast.ExprStmt:
			g.scanExpr(s.X, env, report)
			return
		}
		// other statements: scan expressions conservatively
		ast.Inspect(n, func(x ast.Node) bool {
			if e, ok := x.(ast.Expr); ok {
				g.scanExpr(e, env, report)
				return false
			}
			return true
		})
	}
	walk(block, true)
	out := aval{bottom: true}
	for _, v := range assigned {
		out = joinAval(out, v)
	}
	if !unconditional && len(prod.RHS) > 0 {
		out = joinAval(out, g.symVal(prod.RHS[0]))
	}
	if out.bottom && len(prod.RHS) == 0 {
		return aval{}
	}
	return out
}

func (g *gr3) noteField(se *ast.SelectorExpr, rhs ast.Expr, env *actEnv) {
	v := core.FieldOf(g.info, se)
	if v == nil || v.Pkg() == nil || v.Pkg().Name() != "ast" {
		return
	}
	t := g.info.Types[se.X].Type
	if t == nil {
		return
	}
	name := strings.TrimPrefix(namedOrLit(t), "*") + "." + v.Name()
	g.addField(name, g.eval(rhs, env))
}

func (g *gr3) addField(name string, v aval) {
	if old, ok := g.field[name]; ok {
		g.field[name] = joinAval(old, v)
	} else {
		g.field[name] = v
	}
	g.nfld[name]++
}

func (g *gr3) scanLhs(l ast.Expr, env *actEnv, report func(kind, key string, pos token.Pos, ok bool, detail string)) {
	switch l := ast.Unparen(l).(type) {
	case *ast.IndexExpr:
		g.scanExpr(l, env, report)
	case *ast.SelectorExpr:
		g.scanExpr(l.X, env, report)
	}
}

// scanExpr reports assertion and index obligations inside e and records
// AST field constructions.
func (g *gr3) scanExpr(e ast.Expr, env *actEnv, report func(kind, key string, pos token.Pos, ok bool, detail string)) {
	if e == nil {
		return
	}
	ast.Inspect(e, func(n ast.Node) bool {
		switch n := n.(type) {
		case *ast.FuncLit:
			return false
		case *ast.TypeAssertExpr:
			if n.Type == nil {
				return true
			}
			if id, ok := ast.Unparen(n.X).(*ast.Ident); ok && id.Name == "yylex" {
				return true // YY1
			}
			want := namedOrLit(g.info.Types[n.Type].Type)
			key := fmt.Sprintf("TA|%s", normDollar(exprStr(n)))
			// element assertions are beyond the abstraction: reasoned exceptions
			if ix, ok := ast.Unparen(n.X).(*ast.IndexExpr); ok {
				if id, isID := ix.X.(*ast.Ident); !isID || id.Name != "yyDollar" {
					reason, known := gr3ElementExceptions[normDollar(exprStr(n))]
					if report != nil {
						if known {
							report("exception", key, n.Pos(), true, reason)
						} else {
							report("TA", key, n.Pos(), false, "assertion on a slice element; the element's dynamic type is not tracked")
						}
					}
					return true
				}
			}
			v := g.eval(n.X, env)
			if report != nil {
				if g.assertOK(v, n.Type) {
					report("typed", key, n.Pos(), true, "operand carries {"+v.typ+"}, all of which satisfy "+want)
				} else {
					report("TA", key, n.Pos(), false, fmt.Sprintf("operand may carry %q, asserted %s", v.typ, want))
				}
			}
		case *ast.IndexExpr:
			if id, ok := n.X.(*ast.Ident); ok && id.Name == "yyDollar" {
				if v, ok := evalInt(n.Index); ok && report != nil {
					if int(v) >= 1 && int(v) <= len(env.prod.RHS) {
						// trivial
					} else {
						report("IDX", fmt.Sprintf("IDX|yyDollar[%d]", v), n.Pos(), false, fmt.Sprintf("production has %d right-hand symbols", len(env.prod.RHS)))
					}
				}
				return true
			}
			if tv, ok := g.info.Types[n.X]; ok {
				if _, isMap := tv.Type.Underlying().(*types.Map); isMap {
					return true
				}
			}
			v := g.eval(n.X, env)
			key := fmt.Sprintf("IDX|%s", normDollar(exprStr(n)))
			if report != nil {
				idxOK := false
				is := exprStr(n.Index)
				if is == "0" || is == "len("+exprStr(n.X)+") - 1" {
					idxOK = true
				}
				if idxOK && v.nonEmpty && !v.bottom {
					report("nonempty", key, n.Pos(), true, "operand is non-empty by construction")
				} else {
					report("IDX", key, n.Pos(), false, "operand is not known to be non-empty, or the index is not first/last")
				}
			}
		case *ast.UnaryExpr:
			if n.Op == token.AND {
				if cl, ok := n.X.(*ast.CompositeLit); ok {
					g.noteLiteral(cl, env)
				}
			}
		case *ast.CallExpr:
			// a constructor helper of the grammar's tail: func(p1, p2 …) *ast.T { return &ast.T{F: p1, …} }
			if cl, env2 := g.constructorCall(n, env); cl != nil {
				g.noteLiteral(cl, env2)
			}
		}
		return true
	})
}

// noteLiteral records the field constructions of an AST node literal.
func (g *gr3) noteLiteral(cl *ast.CompositeLit, env *actEnv) {
	t := g.info.Types[cl].Type
	if nt, ok := t.(*types.Named); ok && nt.Obj().Pkg() != nil && nt.Obj().Pkg().Name() == "ast" {
		for _, el := range cl.Elts {
			if kv, ok := el.(*ast.KeyValueExpr); ok {
				g.addField(nt.Obj().Name()+"."+exprStr(kv.Key), g.eval(kv.Value, env))
			}
		}
	}
}

// constructorCall recognises a call of a hand-written function of the same
// package whose body is a single `return &ast.T{…}` (or `return ast.T{…}`) and
// returns that literal together with an environment in which the function's
// parameters carry the abstract values of the call's arguments.
func (g *gr3) constructorCall(call *ast.CallExpr, env *actEnv) (*ast.CompositeLit, *actEnv) {
	fo := core.StaticCallee(g.info, call)
	if fo == nil {
		return nil, nil
	}
	f := g.c.P.FuncOf(fo)
	if f == nil || f.Decl == nil || f.Generated || f.Body == nil || len(f.Body.List) != 1 || f.Type.Params == nil {
		return nil, nil
	}
	ret, ok := f.Body.List[0].(*ast.ReturnStmt)
	if !ok || len(ret.Results) != 1 {
		return nil, nil
	}
	e := ast.Unparen(ret.Results[0])
	if u, ok := e.(*ast.UnaryExpr); ok && u.Op == token.AND {
		e = u.X
	}
	cl, ok := e.(*ast.CompositeLit)
	if !ok {
		return nil, nil
	}
	env2 := &actEnv{k: env.k, prod: env.prod, locals: map[types.Object]aval{}, cur: env.cur}
	for k, v := range env.locals {
		env2.locals[k] = v
	}
	i := 0
	for _, fld := range f.Type.Params.List {
		for _, nm := range fld.Names {
			if i < len(call.Args) {
				if obj := g.info.Defs[nm]; obj != nil {
					env2.locals[obj] = g.eval(call.Args[i], env)
				}
			}
			i++
		}
	}
	return cl, env2
}

func normDollar(s string) string { return s }

var gr3ElementExceptions = map[string]string{
	"cmds[len(cmds) - 1].(ast.List)": "every production of `term` leaves an ast.List at the last index of its slice (it either replaces the last element by append(l, …) of type ast.List or appends a fresh ast.List); compound_list reads it before collapsing singletons",
	"yyDollar[2].word[0].(*ast.Lit)": "NAME token: " + terminalWordShape["NAME"],
	"yyDollar[1].word[0].(*ast.Lit)": "NAME / IO_NUMBER token: single *ast.Lit by construction in the lexer",
}

// requiredFieldFacts are the AST shape facts consumers rely on (PF1
// invariants compound-list-nonempty / list-nonempty).
var requiredNonEmptyFields = []string{
	"Subshell.List", "Group.List", "ForClause.List", "WhileClause.Cond", "WhileClause.List",
	"UntilClause.Cond", "UntilClause.List", "IfClause.Cond", "IfClause.List", "ElifClause.Cond", "ElifClause.List", "ElseClause.List",
}
var requiredNonNilFields = []string{
	"Pipeline.Cmd", "AndOrList.Pipeline", "AndOr.Pipeline", "Pipe.Cmd", "Cmd.Expr", "ForClause.Name", "FuncDef.Body", "Assign.Name",
}

// gr3Consistent checks that production k of the grammar is case k of the
// checked-in parser.
func gr3Consistent(gi *GrammarInfo) string {
	r2 := gi.Checked.Tables["yyR2"]
	if len(r2) != len(gi.G.Prods)+1 {
		return fmt.Sprintf("grammar has %d productions, yyR2 has %d entries", len(gi.G.Prods), len(r2))
	}
	for _, p := range gi.G.Prods {
		if int(r2[p.N]) != len(p.RHS) {
			return fmt.Sprintf("`%s` has %d symbols, yyR2 says %d", p, len(p.RHS), r2[p.N])
		}
	}
	return ""
}

// gr3Values runs GR3's fixed point (symbol values only) once per check, for
// rules that ask what a reduce action hands to a helper.
func (c *Ctx) gr3Values() *gr3 {
	if v, ok := c.cache["gr3Values"]; ok {
		return v.(*gr3)
	}
	var out *gr3
	defer func() { c.cache["gr3Values"] = out }()
	gi := c.grammar("parser")
	if gi.Err != nil || c.P.Pkgs["parser"] == nil || gr3Consistent(gi) != "" {
		return nil
	}
	g := &gr3{c: c, gi: gi, info: c.P.Pkgs["parser"].TypesInfo, vals: map[string]aval{}}
	for round := 0; round < 12; round++ {
		g.field, g.nfld = map[string]aval{}, map[string]int{}
		next := map[string]aval{}
		for _, p := range gi.G.Prods {
			var v aval
			if cc, ok := gi.Checked.Cases[p.N]; ok {
				v = g.runAction(p.N, cc, nil)
			} else if len(p.RHS) > 0 {
				v = g.symVal(p.RHS[0])
			}
			if old, ok := next[p.LHS]; ok {
				next[p.LHS] = joinAval(old, v)
			} else {
				next[p.LHS] = v
			}
		}
		same := len(next) == len(g.vals)
		for k, v := range next {
			if g.vals[k] != v {
				same = false
			}
		}
		g.vals = next
		if same {
			out = g
			return out
		}
	}
	return nil
}

// reduceArgNonEmpty reports whether an argument a reduce action passes to a
// helper is a non-empty list according to GR3's fixed point: the call must sit
// in `case k:` of the generated parser and the argument must evaluate, in the
// environment of production k, to a value built non-empty by every action.
func (c *Ctx) reduceArgNonEmpty(call *ast.CallExpr, arg ast.Expr) (bool, string) {
	g := c.gr3Values()
	if g == nil {
		return false, ""
	}
	for k, cc := range g.gi.Checked.Cases {
		if cc.Pos() <= call.Pos() && call.End() <= cc.End() {
			if k < 1 || k > len(g.gi.G.Prods) {
				return false, ""
			}
			env := &actEnv{k: k, prod: g.gi.G.Prods[k-1], locals: map[types.Object]aval{}}
			// locals defined once, before the call, from $n values; $$ only while
			// the action has not assigned it (it then still is $1)
			nassign := map[types.Object]int{}
			valAssigned := false
			var defs []*ast.AssignStmt
			ast.Inspect(cc, func(n ast.Node) bool {
				as, ok := n.(*ast.AssignStmt)
				if !ok {
					return true
				}
				for _, l := range as.Lhs {
					if id, ok := l.(*ast.Ident); ok {
						if obj := g.info.ObjectOf(id); obj != nil {
							nassign[obj]++
						}
					}
					if _, _, isVal, ok := dollar(l); ok && isVal && as.Pos() < call.Pos() {
						valAssigned = true
					}
				}
				if as.Tok == token.DEFINE && len(as.Lhs) == len(as.Rhs) && as.End() <= call.Pos() {
					defs = append(defs, as)
				}
				return true
			})
			usesVal := false
			ast.Inspect(arg, func(n ast.Node) bool {
				if e, ok := n.(ast.Expr); ok {
					if _, _, isVal, ok := dollar(e); ok && isVal {
						usesVal = true
					}
				}
				return true
			})
			sort.Slice(defs, func(i, j int) bool { return defs[i].Pos() < defs[j].Pos() })
			for _, as := range defs {
				for i, l := range as.Lhs {
					id, ok := l.(*ast.Ident)
					if !ok {
						continue
					}
					obj := g.info.Defs[id]
					if obj == nil || nassign[obj] != 1 {
						continue
					}
					ast.Inspect(as.Rhs[i], func(n ast.Node) bool {
						if e, ok := n.(ast.Expr); ok {
							if _, _, isVal, ok := dollar(e); ok && isVal {
								usesVal = true
							}
						}
						return true
					})
					env.locals[obj] = g.eval(as.Rhs[i], env)
				}
			}
			if usesVal && valAssigned {
				return false, ""
			}
			v := g.eval(arg, env)
			if v.nonEmpty && !v.bottom {
				return true, fmt.Sprintf("reduce action %d (%s): GR3 builds %s non-empty in every production", k, g.gi.G.Prods[k-1], exprStr(arg))
			}
			return false, ""
		}
	}
	return false, ""
}

func ruleGR3() Rule {
	return Rule{ID: "GR3", Kind: "must", Floor: 100,
		Doc: "least fixed point over the reduce actions: every nonterminal always carries one dynamic type (so the type assertions on yyDollar cannot fail), list-valued nonterminals that consumers index are non-empty by construction, and the AST fields the printer and ast package index are built from such values",
		Run: func(c *Ctx, rr *core.RuleResult) {
			gi := c.grammar("parser")
			if gi.Err != nil {
				rr.Unkp(c.P, "parser|grammar", 0, gi.Err.Error())
				return
			}
			g := &gr3{c: c, gi: gi, info: c.P.Pkgs["parser"].TypesInfo, vals: map[string]aval{}}
			// production k <-> case k consistency
			if msg := gr3Consistent(gi); msg != "" {
				rr.Unkp(c.P, "parser|production-count", gi.AstFile.Pos(), msg)
				return
			}
			for round := 0; round < 12; round++ {
				g.field, g.nfld = map[string]aval{}, map[string]int{}
				next := map[string]aval{}
				for _, p := range gi.G.Prods {
					var v aval
					if cc, ok := gi.Checked.Cases[p.N]; ok {
						v = g.runAction(p.N, cc, nil)
					} else if len(p.RHS) > 0 {
						v = g.symVal(p.RHS[0])
					}
					if old, ok := next[p.LHS]; ok {
						next[p.LHS] = joinAval(old, v)
					} else {
						next[p.LHS] = v
					}
				}
				same := len(next) == len(g.vals)
				for k, v := range next {
					if g.vals[k] != v {
						same = false
					}
				}
				g.vals = next
				if same {
					break
				}
			}
			// hand-written tail functions also build AST nodes (assign)
			// (functions of the grammar's tail, and functions the reduce actions call wherever they are declared)
			calledByActions := map[*core.Func]bool{}
			for _, g := range c.funcsOfPkg("parser", true) {
				if !g.Generated {
					continue
				}
				ginfo := g.Info()
				g.OwnNodes(func(n ast.Node) bool {
					if call, ok := n.(*ast.CallExpr); ok {
						if fo := core.StaticCallee(ginfo, call); fo != nil {
							if h := c.P.FuncOf(fo); h != nil && !h.Generated {
								calledByActions[h] = true
							}
						}
					}
					return true
				})
			}
			for _, f := range c.funcsOfPkg("parser", false) {
				if c.P.Fset.Position(f.Pos()).Filename != gi.Gen.GoFile && !calledByActions[f] {
					continue
				}
				// a constructor helper is evaluated at each of its call sites, with the arguments' values
				if f.Decl != nil && len(f.Body.List) == 1 {
					if ret, ok := f.Body.List[0].(*ast.ReturnStmt); ok && len(ret.Results) == 1 {
						e := ast.Unparen(ret.Results[0])
						if u, ok := e.(*ast.UnaryExpr); ok && u.Op == token.AND {
							e = u.X
						}
						if _, isLit := e.(*ast.CompositeLit); isLit {
							continue
						}
					}
				}
				env := &actEnv{prod: &Production{}, locals: map[types.Object]aval{}}
				ast.Inspect(f.Body, func(n ast.Node) bool {
					if as, ok := n.(*ast.AssignStmt); ok && as.Tok == token.DEFINE && len(as.Lhs) == len(as.Rhs) {
						for i, l := range as.Lhs {
							if id, ok := l.(*ast.Ident); ok {
								if obj := g.info.Defs[id]; obj != nil {
									env.locals[obj] = g.eval(as.Rhs[i], env)
								}
							}
						}
					}
					return true
				})
				g.scanExpr(&ast.ParenExpr{X: &ast.FuncLit{Type: &ast.FuncType{}, Body: &ast.BlockStmt{}}}, env, nil)
				ast.Inspect(f.Body, func(n ast.Node) bool {
					if e, ok := n.(*ast.UnaryExpr); ok {
						g.scanExpr(e, env, nil)
						return false
					}
					if call, ok := n.(*ast.CallExpr); ok {
						if cl, env2 := g.constructorCall(call, env); cl != nil {
							g.noteLiteral(cl, env2)
						}
					}
					return true
				})
			}
			// every ast.List literal in the actions has at least one element
			for k, cc := range gi.Checked.Cases {
				ast.Inspect(cc, func(n ast.Node) bool {
					if cl, ok := n.(*ast.CompositeLit); ok && namedOrLit(g.info.Types[cl].Type) == "ast.List" {
						key := fmt.Sprintf("parser|action %d|ast.List{%d}", k, len(cl.Elts))
						if len(cl.Elts) >= 1 {
							rr.OKp(c.P, key, cl.Pos(), "literal", "non-empty ast.List literal")
						} else {
							rr.Badp(c.P, key, cl.Pos(), "an empty ast.List is built; consumers index the last element of every ast.List")
						}
					}
					return true
				})
			}
			// report
			for _, p := range gi.G.Prods {
				cc, ok := gi.Checked.Cases[p.N]
				if !ok {
					continue
				}
				g.runAction(p.N, cc, func(kind, key string, pos token.Pos, ok bool, detail string) {
					k := fmt.Sprintf("parser|action %d (%s)|%s", p.N, p.LHS, key)
					if ok {
						o := rr.OKp(c.P, k, pos, kind, detail)
						o.Func = "parser.yyParse"
					} else {
						o := rr.Badp(c.P, k, pos, kind+": "+detail+" in the action of `"+p.String()+"`")
						o.Func = "parser.yyParse"
					}
				})
			}
			var syms []string
			for s := range g.vals {
				syms = append(syms, s)
			}
			sort.Strings(syms)
			for _, s := range syms {
				v := g.vals[s]
				if gi.G.Types[s] == "list" || gi.G.Types[s] == "node" {
					key := "parser|nonterminal " + s
					if v.typ == "" || v.bottom {
						rr.Badp(c.P, key, gi.AstFile.Pos(), "the dynamic type of this nonterminal's interface-typed value cannot be determined from its reduce actions")
					} else {
						rr.OKp(c.P, key, gi.AstFile.Pos(), "typed", fmt.Sprintf("{%s} nonEmpty=%v nonNil=%v", v.typ, v.nonEmpty, v.nonNil))
					}
				}
			}
			for _, f := range requiredNonEmptyFields {
				key := "parser|field " + f + " non-empty"
				v, ok := g.field[f]
				switch {
				case !ok:
					rr.Unkp(c.P, key, gi.AstFile.Pos(), "no reduce action builds this field")
				case v.nonEmpty && !v.bottom:
					rr.OKp(c.P, key, gi.AstFile.Pos(), "by-construction", fmt.Sprintf("%d construction(s), all from non-empty list values", g.nfld[f]))
				default:
					rr.Badp(c.P, key, gi.AstFile.Pos(), "some reduce action builds this field from a possibly empty list; the printer indexes it unconditionally")
				}
			}
			for _, f := range requiredNonNilFields {
				key := "parser|field " + f + " non-nil"
				v, ok := g.field[f]
				switch {
				case !ok:
					rr.Unkp(c.P, key, gi.AstFile.Pos(), "no reduce action builds this field")
				case (v.nonNil || v.typ != "") && !v.bottom:
					rr.OKp(c.P, key, gi.AstFile.Pos(), "by-construction", fmt.Sprintf("%d construction(s): %s", g.nfld[f], v.typ))
				default:
					rr.Badp(c.P, key, gi.AstFile.Pos(), "some reduce action may leave this field nil; consumers dereference it")
				}
			}
			// ast.List values are non-empty wherever built
			if v, ok := g.vals["list"]; ok {
				key := "parser|ast.List non-empty"
				if v.typ == "ast.List" && v.nonEmpty {
					rr.OKp(c.P, key, gi.AstFile.Pos(), "by-construction", "list starts as ast.List{and_or} and only grows")
				} else {
					rr.Badp(c.P, key, gi.AstFile.Pos(), "an ast.List may be empty; sepOf/trim/ast.List.End index its last element")
				}
			}
		}}
}

// ---------------------------------------------------------------------------
// GR5: precedence ladder of the arithmetic grammar.

// cLevels is C's binary operator table, lowest precedence first (ISO C
// 6.5.5 - 6.5.14); the oracle is external to the repository.
var cLevels = [][]string{
	{"||"}, {"&&"}, {"|"}, {"^"}, {"&"}, {"==", "!="}, {"<", ">", "<=", ">="}, {"<<", ">>"}, {"+", "-"}, {"*", "/", "%"},
}

func ruleGR5() Rule {
	return Rule{ID: "GR5", Kind: "agreement", Floor: 14,
		Doc: "the arithmetic grammar's binary levels form C's precedence ladder: each level is `L: N | L op N` (left-associative) with exactly C's operators, levels are chained in C's order, ?: and assignment are right-recursive above them and unary/postfix bind tighter",
		Run: func(c *Ctx, rr *core.RuleResult) {
			gi := c.grammar("interp")
			if gi.Err != nil {
				rr.Unkp(c.P, "interp|grammar", 0, gi.Err.Error())
				return
			}
			G := gi.G
			pos := gi.AstFile.Pos()
			spell, err := c.opsTable("interp")
			if err != nil {
				rr.Unkp(c.P, "interp|ops", pos, err.Error())
				return
			}
			// marker nonterminals (`land_lhs: land_expr LAND`, reduced early for the sake of
			// its action) are written back into the productions that begin with them: the
			// language is the same and the levels have their textbook shape
			inl, _ := inlineMarkers(G)
			var prods []*Production
			for _, ip := range inl {
				q := *ip.top
				q.RHS = ip.rhs
				prods = append(prods, &q)
			}
			byLHS := map[string][]*Production{}
			for _, p := range prods {
				byLHS[p.LHS] = append(byLHS[p.LHS], p)
			}
			// walk down the unit-production chain from cond_expr's first operand
			findBinary := func(op string) (lhs string, p *Production) {
				for _, pr := range prods {
					if len(pr.RHS) == 3 && spell[pr.RHS[1]] == op && G.IsTerminal(pr.RHS[1]) && !G.IsTerminal(pr.RHS[0]) && !G.IsTerminal(pr.RHS[2]) {
						return pr.LHS, pr
					}
				}
				return "", nil
			}
			unit := func(lhs string) string {
				for _, pr := range byLHS[lhs] {
					if len(pr.RHS) == 1 && !G.IsTerminal(pr.RHS[0]) {
						return pr.RHS[0]
					}
				}
				return ""
			}
			var levelNT []string
			for li, ops := range cLevels {
				lhs0 := ""
				for _, op := range ops {
					key := "interp|operator " + op
					lhs, pr := findBinary(op)
					if pr == nil {
						rr.Badp(c.P, key, pos, "no binary production for C operator "+op)
						continue
					}
					if lhs0 == "" {
						lhs0 = lhs
					}
					next := unit(lhs)
					switch {
					case lhs != lhs0:
						rr.Badp(c.P, key, pos, fmt.Sprintf("operator %s is on level %s, its C level-mates are on %s", op, lhs, lhs0))
					case pr.RHS[0] != lhs:
						rr.Badp(c.P, key, pos, fmt.Sprintf("`%s` is not left-recursive: C's binary operators associate to the left", pr))
					case pr.RHS[2] != next:
						rr.Badp(c.P, key, pos, fmt.Sprintf("right operand of `%s` is %s, expected the next tighter level %s", pr, pr.RHS[2], next))
					default:
						rr.OKp(c.P, key, pos, "ladder", fmt.Sprintf("level %d (%s): %s", li, lhs, pr))
					}
				}
				// no foreign operators on this level
				for _, pr := range byLHS[lhs0] {
					if len(pr.RHS) == 3 && G.IsTerminal(pr.RHS[1]) {
						found := false
						for _, op := range ops {
							if spell[pr.RHS[1]] == op {
								found = true
							}
						}
						if !found {
							rr.Badp(c.P, "interp|level "+lhs0+" extra "+pr.RHS[1], pos, fmt.Sprintf("`%s` puts %s on the level of %v", pr, spell[pr.RHS[1]], ops))
						}
					}
				}
				levelNT = append(levelNT, lhs0)
			}
			// chain order: each level's unit production leads to the next level
			for i := 0; i+1 < len(levelNT); i++ {
				key := fmt.Sprintf("interp|chain %s -> %s", levelNT[i], levelNT[i+1])
				if unit(levelNT[i]) == levelNT[i+1] {
					rr.OKp(c.P, key, pos, "chain", "unit production to the next tighter level")
				} else {
					rr.Badp(c.P, key, pos, fmt.Sprintf("level %s falls through to %s, C's next tighter level is %s", levelNT[i], unit(levelNT[i]), levelNT[i+1]))
				}
			}
			// conditional and assignment
			top := levelNT[0]
			var condNT string
			for _, pr := range prods {
				if len(pr.RHS) == 5 && spell[pr.RHS[1]] == "?" && spell[pr.RHS[3]] == ":" {
					condNT = pr.LHS
					key := "interp|conditional"
					if pr.RHS[0] == top && pr.RHS[4] == pr.LHS && unit(pr.LHS) == top {
						rr.OKp(c.P, key, pos, "right-recursive", pr.String())
					} else {
						rr.Badp(c.P, key, pos, fmt.Sprintf("`%s`: C's conditional is `lor ? expr : cond` (right-associative, condition from the || level)", pr))
					}
				}
			}
			if condNT == "" {
				rr.Badp(c.P, "interp|conditional", pos, "no ?: production")
			}
			assignOK := false
			for _, pr := range prods {
				if len(pr.RHS) == 3 && pr.RHS[1] == "assign_op" {
					key := "interp|assignment"
					if pr.RHS[2] == pr.LHS && unit(pr.LHS) == condNT {
						rr.OKp(c.P, key, pos, "right-recursive", pr.String())
						assignOK = true
					} else {
						rr.Badp(c.P, key, pos, fmt.Sprintf("`%s`: C's assignment is right-associative with the conditional level below it", pr))
						assignOK = true
					}
				}
			}
			if !assignOK {
				rr.Badp(c.P, "interp|assignment", pos, "no assignment production")
			}
			var aops []string
			for _, pr := range byLHS["assign_op"] {
				if len(pr.RHS) == 1 {
					aops = append(aops, spell[pr.RHS[0]])
				}
			}
			sort.Strings(aops)
			want := []string{"%=", "&=", "*=", "+=", "-=", "/=", "<<=", "=", ">>=", "^=", "|="}
			if strings.Join(aops, " ") == strings.Join(want, " ") {
				rr.OKp(c.P, "interp|assign_op set", pos, "equal", strings.Join(aops, " "))
			} else {
				rr.Badp(c.P, "interp|assign_op set", pos, fmt.Sprintf("assignment operators are %v, C has %v", aops, want))
			}
			// unary binds tighter than every binary level: the tightest level's unit leads to unary
			last := levelNT[len(levelNT)-1]
			un := unit(last)
			hasUnary := false
			for _, pr := range byLHS[un] {
				if len(pr.RHS) == 2 && pr.RHS[1] == un {
					hasUnary = true
				}
			}
			if hasUnary {
				rr.OKp(c.P, "interp|unary tighter", pos, "chain", fmt.Sprintf("%s -> %s holds the prefix operators", last, un))
			} else {
				rr.Badp(c.P, "interp|unary tighter", pos, fmt.Sprintf("the tightest binary level %s does not fall through to the unary level", last))
			}
		}}
}

// opsTable reads the package-level `ops` map literal: token name -> spelling.
func (c *Ctx) opsTable(pkg string) (map[string]string, error) {
	pk := c.P.Pkgs[pkg]
	out := map[string]string{}
	for _, f := range pk.Syntax {
		for _, d := range f.Decls {
			gd, ok := d.(*ast.GenDecl)
			if !ok {
				continue
			}
			for _, sp := range gd.Specs {
				vs, ok := sp.(*ast.ValueSpec)
				if !ok {
					continue
				}
				for i, n := range vs.Names {
					if n.Name != "ops" || i >= len(vs.Values) {
						continue
					}
					cl, ok := vs.Values[i].(*ast.CompositeLit)
					if !ok {
						continue
					}
					for _, el := range cl.Elts {
						kv, ok := el.(*ast.KeyValueExpr)
						if !ok {
							continue
						}
						s, ok := constStr(pk.TypesInfo, kv.Value)
						if !ok {
							continue
						}
						out[exprStr(kv.Key)] = s
					}
				}
			}
		}
	}
	if len(out) == 0 {
		// the same table written as a function: func(tok int) string { switch tok { case T: return "spelling" … } }
		out = c.switchTable(pkg, func(sig *types.Signature) bool {
			return sig.Params().Len() == 1 && sig.Results().Len() == 1 && isIntegerType(sig.Params().At(0).Type()) && sig.Results().At(0).Type().String() == "string"
		}, func(info *types.Info, key ast.Expr, results []ast.Expr) (string, string, bool) {
			if len(results) != 1 {
				return "", "", false
			}
			v, ok := constStr(info, results[0])
			return exprStr(key), v, ok
		})
	}
	if len(out) == 0 {
		return nil, fmt.Errorf("no `ops` table (map literal or switch function from token to spelling) in package %s", pkg)
	}
	return out, nil
}

// switchTable reads a lookup table written as a function whose body is one
// switch over its only parameter with constant cases that return constants.
// pick decides from the signature whether a function is a candidate; entry
// converts one (case expression, returned expressions) pair.  The function with
// the most entries (at least 8) wins.
func (c *Ctx) switchTable(pkg string, pick func(*types.Signature) bool, entry func(info *types.Info, key ast.Expr, results []ast.Expr) (string, string, bool)) map[string]string {
	best := map[string]string{}
	for _, f := range c.funcsOfPkg(pkg, false) {
		if f.Decl == nil || f.Obj == nil || f.Type.Params == nil {
			continue
		}
		sig := f.Obj.Type().(*types.Signature)
		if !pick(sig) {
			continue
		}
		info := f.Info()
		var param types.Object
		for _, fld := range f.Type.Params.List {
			for _, nm := range fld.Names {
				param = info.Defs[nm]
			}
		}
		cur := map[string]string{}
		for _, st := range f.Body.List {
			sw, ok := st.(*ast.SwitchStmt)
			if !ok || sw.Tag == nil {
				continue
			}
			id, ok := ast.Unparen(sw.Tag).(*ast.Ident)
			if !ok || info.Uses[id] != param {
				continue
			}
			for _, cl := range sw.Body.List {
				cc := cl.(*ast.CaseClause)
				if len(cc.Body) != 1 {
					continue
				}
				ret, ok := cc.Body[0].(*ast.ReturnStmt)
				if !ok {
					continue
				}
				for _, k := range cc.List {
					if a, b, ok := entry(info, k, ret.Results); ok {
						cur[a] = b
					}
				}
			}
		}
		if len(cur) >= 8 && len(cur) > len(best) {
			best = cur
		}
	}
	return best
}

// ---------------------------------------------------------------------------
// GR6: lexer and grammar agree on the terminal alphabet.

func ruleGR6() Rule {
	return Rule{ID: "GR6", Kind: "agreement", Floor: 40,
		Doc: "the terminals of each grammar are exactly the tokens the lexer's tables name (ops keys, words values, the word-class tokens, newline), and every terminal is the constant operand of some emit/return in the lexer",
		Run: func(c *Ctx, rr *core.RuleResult) {
			for _, pkg := range []string{"parser", "interp"} {
				gi := c.grammar(pkg)
				if gi.Err != nil {
					rr.Unkp(c.P, pkg+"|grammar", 0, gi.Err.Error())
					continue
				}
				pos := gi.AstFile.Pos()
				terms := map[string]bool{}
				for t := range gi.G.Tokens {
					terms[t] = true
				}
				for _, p := range gi.G.Prods {
					for _, s := range p.RHS {
						if strings.HasPrefix(s, "'") {
							terms[s] = true
						}
					}
				}
				ops, err := c.opsTable(pkg)
				if err != nil {
					rr.Unkp(c.P, pkg+"|ops", pos, err.Error())
					continue
				}
				lexerToks := map[string]string{}
				for k := range ops {
					lexerToks[k] = "ops"
				}
				if pkg == "parser" {
					for _, v := range c.wordsTable() {
						lexerToks[v] = "words"
					}
					for _, t := range []string{"IO_NUMBER", "WORD", "NAME", "ASSIGNMENT_WORD", `'\n'`} {
						lexerToks[t] = "class"
					}
				} else {
					lexerToks["NUMBER"], lexerToks["IDENT"] = "class", "class"
				}
				// mentions of each token constant in hand-written lexer code
				mention := map[string]int{}
				for _, f := range c.funcsOfPkg(pkg, false) {
					if !strings.Contains(f.Name, "lexer") {
						continue
					}
					f.OwnNodes(func(n ast.Node) bool {
						switch n := n.(type) {
						case *ast.Ident:
							if _, ok := f.Info().Uses[n].(*types.Const); ok {
								mention[n.Name]++
							}
						case *ast.BasicLit:
							if n.Kind == token.CHAR {
								mention[n.Value]++
							}
						}
						return true
					})
				}
				// ... and in the constant tables those functions consult (an operator tree, a
				// table of continuation characters); the ops table itself only spells tokens
				// for messages and does not count
				{
					pk := c.P.Pkgs[pkg]
					tables := map[*types.Var]bool{}
					for _, f := range c.funcsOfPkg(pkg, false) {
						if !strings.Contains(f.Name, "lexer") {
							continue
						}
						f.OwnNodes(func(n ast.Node) bool {
							if id, ok := n.(*ast.Ident); ok {
								if v, ok := f.Info().Uses[id].(*types.Var); ok && v.Pkg() == pk.Types && v.Parent() == pk.Types.Scope() && v.Name() != "ops" && c.constantGlobal(v) {
									tables[v] = true
								}
							}
							return true
						})
					}
					for _, file := range pk.Syntax {
						for _, d := range file.Decls {
							gd, ok := d.(*ast.GenDecl)
							if !ok {
								continue
							}
							for _, sp := range gd.Specs {
								vs, ok := sp.(*ast.ValueSpec)
								if !ok {
									continue
								}
								for i, nm := range vs.Names {
									v, _ := pk.TypesInfo.Defs[nm].(*types.Var)
									if v == nil || !tables[v] || i >= len(vs.Values) {
										continue
									}
									ast.Inspect(vs.Values[i], func(n ast.Node) bool {
										switch n := n.(type) {
										case *ast.Ident:
											if _, ok := pk.TypesInfo.Uses[n].(*types.Const); ok {
												mention[n.Name]++
											}
										case *ast.BasicLit:
											if n.Kind == token.CHAR {
												mention[n.Value]++
											}
										}
										return true
									})
								}
							}
						}
					}
				}
				var all []string
				for t := range terms {
					all = append(all, t)
				}
				for t := range lexerToks {
					if !terms[t] {
						all = append(all, t)
					}
				}
				sort.Strings(all)
				for _, t := range all {
					key := pkg + "|terminal " + t
					switch {
					case !terms[t]:
						rr.Badp(c.P, key, pos, fmt.Sprintf("the lexer's %s table names %s, which is not a terminal of the grammar", lexerToks[t], t))
					case lexerToks[t] == "":
						rr.Badp(c.P, key, pos, "grammar terminal is in none of the lexer's tables (ops / words / word classes): the lexer cannot produce it or spell it")
					case mention[t] == 0:
						rr.Badp(c.P, key, pos, "no lexer function mentions this token: it can never be emitted")
					default:
						rr.OKp(c.P, key, pos, lexerToks[t], fmt.Sprintf("%d mention(s) in the lexer", mention[t]))
					}
				}
			}
		}}
}

// wordsTable reads parser's `words` map: spelling -> token name.
func (c *Ctx) wordsTable() map[string]string {
	out := map[string]string{}
	pk := c.P.Pkgs["parser"]
	if pk == nil {
		return out
	}
	for _, f := range pk.Syntax {
		ast.Inspect(f, func(n ast.Node) bool {
			vs, ok := n.(*ast.ValueSpec)
			if !ok {
				return true
			}
			for i, nm := range vs.Names {
				if nm.Name != "words" || i >= len(vs.Values) {
					continue
				}
				if cl, ok := vs.Values[i].(*ast.CompositeLit); ok {
					for _, el := range cl.Elts {
						if kv, ok := el.(*ast.KeyValueExpr); ok {
							if s, ok := constStr(pk.TypesInfo, kv.Key); ok {
								out[s] = exprStr(kv.Value)
							}
						}
					}
				}
			}
			return true
		})
	}
	if len(out) == 0 {
		// func(word string) (tok int, ok bool) { switch word { case "if": return If, true … } }
		out = c.switchTable("parser", func(sig *types.Signature) bool {
			return sig.Params().Len() == 1 && sig.Params().At(0).Type().String() == "string" && sig.Results().Len() >= 1 && isIntegerType(sig.Results().At(0).Type())
		}, func(info *types.Info, key ast.Expr, results []ast.Expr) (string, string, bool) {
			k, ok := constStr(info, key)
			if !ok || len(results) == 0 {
				return "", "", false
			}
			return k, exprStr(results[0]), true
		})
	}
	return out
}

// ---------------------------------------------------------------------------
// GR7: the body of a function definition is a compound command.

func ruleGR7() Rule {
	return Rule{ID: "GR7", Kind: "agreement", Floor: 1,
		Doc: "POSIX: function_body : compound_command [redirect_list]. In the grammar, whatever follows `NAME '(' ')' linebreak` in a function definition cannot begin with a word, an assignment, an IO number, a redirection operator, `!` or another NAME (FIRST of that symbol is a subset of the openers of compound commands): `f() echo hi` and `f() >out` must be rejected - the grammar is the only guard",
		Run: func(c *Ctx, rr *core.RuleResult) {
			gi := c.grammar("parser")
			if gi.Err != nil {
				rr.Unkp(c.P, "parser|grammar", 0, gi.Err.Error())
				return
			}
			g := gi.G
			firstOf := firstSets(g)
			simple := map[string]bool{"WORD": true, "NAME": true, "ASSIGNMENT_WORD": true, "IO_NUMBER": true, "Bang": true, "'<'": true, "'>'": true, "CLOBBER": true, "APPEND": true, "HEREDOC": true, "HEREDOCI": true, "DUPIN": true, "DUPOUT": true, "RDWR": true}
			n := 0
			for _, p := range g.Prods {
				// NAME '(' ')' … X
				for i := 0; i+2 < len(p.RHS); i++ {
					if p.RHS[i] != "NAME" || p.RHS[i+1] != "'('" || p.RHS[i+2] != "')'" {
						continue
					}
					// the body: the last symbol of the production
					body := p.RHS[len(p.RHS)-1]
					if body == "')'" {
						continue
					}
					n++
					key := fmt.Sprintf("parser|function body `%s`", p)
					var bad []string
					if g.IsTerminal(body) {
						if simple[body] {
							bad = append(bad, body)
						}
					} else {
						for t := range firstOf[body] {
							if simple[t] {
								bad = append(bad, t)
							}
						}
					}
					sort.Strings(bad)
					if len(bad) == 0 {
						rr.OKp(c.P, key, gi.AstFile.Pos(), "compound", "the body can only begin with the opener of a compound command")
					} else {
						rr.Badp(c.P, key, gi.AstFile.Pos(), fmt.Sprintf("the body of a function definition can begin with %v: a simple command (or a bare redirection, or another function definition) is accepted as a function body, which POSIX's grammar rejects", bad))
					}
				}
			}
			if n == 0 {
				rr.Unkp(c.P, "parser|function definition", gi.AstFile.Pos(), "no production of the form NAME '(' ')' … body found")
			}
		}}
}

// firstSets computes FIRST for every nonterminal of a grammar.
func firstSets(g *Grammar) map[string]map[string]bool {
	isTerm := func(s string) bool {
		if strings.HasPrefix(s, "'") {
			return true
		}
		_, ok := g.Tokens[s]
		return ok
	}
	nullable := map[string]bool{}
	first := map[string]map[string]bool{}
	for changed := true; changed; {
		changed = false
		for _, p := range g.Prods {
			if first[p.LHS] == nil {
				first[p.LHS] = map[string]bool{}
			}
			allNull := true
			for _, s := range p.RHS {
				if isTerm(s) {
					if !first[p.LHS][s] {
						first[p.LHS][s] = true
						changed = true
					}
					allNull = false
					break
				}
				for t := range first[s] {
					if !first[p.LHS][t] {
						first[p.LHS][t] = true
						changed = true
					}
				}
				if !nullable[s] {
					allNull = false
					break
				}
			}
			if allNull && !nullable[p.LHS] {
				nullable[p.LHS] = true
				changed = true
			}
		}
	}
	return first
}
