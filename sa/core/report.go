package core

import (
	"bufio"
	"encoding/json"
	"fmt"
	"go/token"
	"os"
	"path/filepath"
	"sort"
	"strings"
)

// Status of an obligation.
const (
	Discharged = "discharged"
	Violation  = "violation"
	Undecided  = "undecided"
)

// Ob is one obligation (rule instance) and how it was decided.
type Ob struct {
	Rule   string `json:"rule"`
	Key    string `json:"key"`  // stable: func + normalised construct (+ordinal)
	Pos    string `json:"pos"`  // file:line:col (diagnostic only)
	Func   string `json:"func"` // enclosing function
	Status string `json:"status"`
	How    string `json:"how,omitempty"`    // discharge method / reason
	Detail string `json:"detail,omitempty"` // what fails / what was checked
	Known  string `json:"known_finding,omitempty"`
	// Trivial marks obligations discharged by a constant bound or similar;
	// they are not counted as non-trivial in the evidence.
	Trivial bool `json:"trivial,omitempty"`
}

// RuleResult collects the obligations of one rule.
type RuleResult struct {
	ID    string   `json:"id"`
	Kind  string   `json:"kind"` // must-not | must | agreement | meta
	Doc   string   `json:"doc"`
	Floor int      `json:"floor"`
	Obs   []*Ob    `json:"-"`
	Notes []string `json:"notes,omitempty"`
}

// Reporter accumulates rule results for one run.
type Reporter struct {
	Prog    *Program
	Results []*RuleResult
	cur     *RuleResult
}

func (r *Reporter) Begin(id, kind, doc string, floor int) *RuleResult {
	rr := &RuleResult{ID: id, Kind: kind, Doc: doc, Floor: floor}
	r.Results = append(r.Results, rr)
	r.cur = rr
	return rr
}

func (rr *RuleResult) add(p *Program, status, key string, pos token.Pos, fn, how, detail string) *Ob {
	o := &Ob{Rule: rr.ID, Key: key, Status: status, How: how, Detail: detail, Func: fn}
	if p != nil {
		o.Pos = p.PosString(pos)
	}
	rr.Obs = append(rr.Obs, o)
	return o
}

func fname(f *Func) string {
	if f == nil {
		return ""
	}
	return f.Name
}

func (rr *RuleResult) OK(f *Func, key string, pos token.Pos, how, detail string) *Ob {
	return rr.add(progOf(f), Discharged, key, pos, fname(f), how, detail)
}
func (rr *RuleResult) Bad(f *Func, key string, pos token.Pos, detail string) *Ob {
	return rr.add(progOf(f), Violation, key, pos, fname(f), "", detail)
}
func (rr *RuleResult) Unk(f *Func, key string, pos token.Pos, detail string) *Ob {
	return rr.add(progOf(f), Undecided, key, pos, fname(f), "", detail)
}

// OKp / Badp / Unkp are the same for obligations without a Func.
func (rr *RuleResult) OKp(p *Program, key string, pos token.Pos, how, detail string) *Ob {
	return rr.add(p, Discharged, key, pos, "", how, detail)
}
func (rr *RuleResult) Badp(p *Program, key string, pos token.Pos, detail string) *Ob {
	return rr.add(p, Violation, key, pos, "", "", detail)
}
func (rr *RuleResult) Unkp(p *Program, key string, pos token.Pos, detail string) *Ob {
	return rr.add(p, Undecided, key, pos, "", "", detail)
}
func (rr *RuleResult) Note(format string, a ...interface{}) {
	rr.Notes = append(rr.Notes, fmt.Sprintf(format, a...))
}

func progOf(f *Func) *Program {
	if f == nil {
		return nil
	}
	return f.Prog
}

// Finish applies the instance floor and disambiguates duplicate keys.
func (rr *RuleResult) Finish() {
	seen := map[string]int{}
	for _, o := range rr.Obs {
		seen[o.Key]++
		if n := seen[o.Key]; n > 1 {
			o.Key = fmt.Sprintf("%s#%d", o.Key, n)
		}
	}
	if len(rr.Obs) < rr.Floor {
		rr.Obs = append(rr.Obs, &Ob{Rule: rr.ID, Key: "floor", Status: Undecided, Pos: "-",
			Detail: fmt.Sprintf("rule matched %d instances, fewer than the %d confirmed by reading the tree: the rule's anchors no longer resolve, a pass would be vacuous", len(rr.Obs), rr.Floor)})
	}
}

// ---------------------------------------------------------------------------
// Known findings

// Known is one line of KNOWN_FINDINGS.txt.
type Known struct {
	Kind     string // known | fixed
	Property string
	Rule     string
	Site     string
	Text     string
}

func LoadKnown(path string) ([]Known, error) {
	f, err := os.Open(path)
	if err != nil {
		if os.IsNotExist(err) {
			return nil, nil
		}
		return nil, err
	}
	defer f.Close()
	var out []Known
	sc := bufio.NewScanner(f)
	for sc.Scan() {
		line := strings.TrimSpace(sc.Text())
		if line == "" || strings.HasPrefix(line, "#") {
			continue
		}
		k := Known{Text: line}
		switch {
		case strings.HasPrefix(line, "known:"):
			k.Kind = "known"
		case strings.HasPrefix(line, "fixed:"):
			k.Kind = "fixed"
		default:
			continue
		}
		k.Property = kvField(line, "property")
		k.Rule = kvField(line, "rule")
		k.Site = kvField(line, "site")
		out = append(out, k)
	}
	return out, sc.Err()
}

// ---------------------------------------------------------------------------
// Evidence

type Evidence struct {
	PropertyID  string                 `json:"property_id"`
	Tier        string                 `json:"tier"`
	Seed        int                    `json:"seed"`
	Level       string                 `json:"level"`
	Coverage    map[string]interface{} `json:"coverage"`
	Assumptions []string               `json:"assumptions"`
	WallS       float64                `json:"wall_s"`
	Violations  int                    `json:"violations"`
}

// Outcome is the verdict of one property run.
type Outcome struct {
	Violations []*Ob
	Undecided  []*Ob
	Known      []*Ob
}

// Decide classifies obligations against the known-findings list.
func Decide(prop string, results []*RuleResult, known []Known) Outcome {
	var out Outcome
	for _, rr := range results {
		for _, o := range rr.Obs {
			switch o.Status {
			case Violation:
				matched := false
				for _, k := range known {
					if k.Kind == "known" && k.Property == prop && k.Rule == o.Rule && (k.Site == o.Key || k.Site == stripConfig(o.Key)) {
						o.Known = k.Text
						matched = true
						break
					}
				}
				if matched {
					out.Known = append(out.Known, o)
				} else {
					out.Violations = append(out.Violations, o)
				}
			case Undecided:
				out.Undecided = append(out.Undecided, o)
			}
		}
	}
	return out
}

// WriteEvidence writes evidence/<id>.json.
func WriteEvidence(path string, ev *Evidence) error {
	b, err := json.MarshalIndent(ev, "", " ")
	if err != nil {
		return err
	}
	if err := os.MkdirAll(filepath.Dir(path), 0o755); err != nil {
		return err
	}
	tmp := path + ".tmp"
	if err := os.WriteFile(tmp, append(b, '\n'), 0o644); err != nil {
		return err
	}
	return os.Rename(tmp, path)
}

// Summarise builds the coverage object from rule results.
func Summarise(p *Program, results []*RuleResult, out Outcome, explanation string, extra map[string]interface{}) map[string]interface{} {
	total, disch, nontriv := 0, 0, 0
	distinct := map[string]bool{}
	var rules []map[string]interface{}
	var samples []interface{}
	for _, rr := range results {
		how := map[string]int{}
		nd, nv, nu, nk := 0, 0, 0, 0
		var findings []interface{}
		for _, o := range rr.Obs {
			total++
			switch o.Status {
			case Discharged:
				disch++
				nd++
				h := o.How
				if i := strings.IndexAny(h, ":("); i > 0 {
					h = h[:i]
				}
				how[h]++
			case Violation:
				if o.Known != "" {
					nk++
				} else {
					nv++
				}
				findings = append(findings, o)
			case Undecided:
				nu++
				findings = append(findings, o)
			}
			if !o.Trivial && !distinct[rr.ID+"|"+o.Key] {
				distinct[rr.ID+"|"+o.Key] = true
				nontriv++
			}
		}
		// up to three samples per rule, preferring non-trivial ones
		n := 0
		for _, o := range rr.Obs {
			if n >= 3 {
				break
			}
			if !o.Trivial {
				samples = append(samples, o)
				n++
			}
		}
		m := map[string]interface{}{
			"id": rr.ID, "kind": rr.Kind, "doc": rr.Doc, "instances": len(rr.Obs), "floor": rr.Floor,
			"discharged": nd, "violations": nv, "known_findings": nk, "undecided": nu, "discharged_by": how,
		}
		if len(findings) > 0 {
			m["findings"] = findings
		}
		if len(rr.Notes) > 0 {
			m["notes"] = rr.Notes
		}
		rules = append(rules, m)
	}
	var exceptions []map[string]string
	for _, rr := range results {
		for _, o := range rr.Obs {
			if o.Status == Discharged && (strings.HasPrefix(o.How, "exception") || strings.HasPrefix(o.How, "invariant:")) {
				exceptions = append(exceptions, map[string]string{"rule": rr.ID, "site": o.Key, "how": o.How, "reason": o.Detail})
			}
		}
	}
	cov := map[string]interface{}{
		"reasoned_exceptions": exceptions,
		"explanation":         explanation,
		"obligations":         total,
		"discharged":          disch,
		"evaluations":         total,
		"distinct_nontrivial": nontriv,
		"rule":                "one case = one obligation (rule instance: a site, path or table row found in /repo's current source); distinct = distinct (rule,key); non-trivial = not discharged by a constant bound or a syntactic triviality",
		"samples":             samples,
		"rules":               rules,
		"exhaustive":          true,
		"violations":          len(out.Violations),
		"undecided":           len(out.Undecided),
		"known_findings":      len(out.Known),
		"checker_cmd":         "bin/sacheck (built by ./setup.sh from /verif/sa; golang.org/x/tools v0.29.0 go/packages + go/types + go/cfg)",
		"trusted_base":        []string{"go/types type checker", "go/cfg control-flow graphs", "the checker's rule implementations (sa/rules)", "Go language semantics of panics, channels, mutexes and atomics", "goyacc (x/tools v0.29.0) as the reference generator"},
	}
	if p != nil {
		cov["units"] = p.Units()
	}
	for k, v := range extra {
		cov[k] = v
	}
	return cov
}

// SortObs orders obligations by key for stable output.
func SortObs(obs []*Ob) {
	sort.SliceStable(obs, func(i, j int) bool { return obs[i].Key < obs[j].Key })
}

// kvField extracts name=value or name="quoted value" from a line.
func kvField(line, name string) string {
	i := strings.Index(line, " "+name+"=")
	if i < 0 {
		return ""
	}
	rest := line[i+len(name)+2:]
	if strings.HasPrefix(rest, "\"") {
		if j := strings.Index(rest[1:], "\""); j >= 0 {
			return rest[1 : 1+j]
		}
	}
	if j := strings.IndexByte(rest, ' '); j >= 0 {
		return rest[:j]
	}
	return rest
}

// stripConfig removes the "@goos/goarch" suffix the thorough tier adds to
// obligations found under another build configuration.
func stripConfig(key string) string {
	if i := strings.LastIndex(key, "@"); i >= 0 && strings.Contains(key[i:], "/") {
		return key[:i]
	}
	return key
}
