package core

import (
	"fmt"
	"go/ast"
	"go/constant"
	"go/token"
	"go/types"
	"sort"
	"strconv"
	"strings"

	"golang.org/x/tools/go/cfg"
)

// ---------------------------------------------------------------------------
// The guard engine: a forward must-analysis over go/cfg blocks.  The
// abstract state is a set of difference constraints  a - b <= k  over
// integer terms (locals, integer fields, len(path)), the set of paths known
// to be non-nil, and the truth of boolean locals.  Facts are killed when a
// local or field they depend on may be assigned (directly, by a callee's
// transitive mod-set, or - for captured/address-taken locals - by any call).

const zeroTerm = "0"

type termInfo struct {
	deps     []*types.Var
	hasIndex bool
}

// State is the abstract state at a program point.  A nil *State is bottom
// (unreachable).
type State struct {
	c      map[[2]string]int
	terms  map[string]*termInfo
	nonnil map[string]*termInfo
	bools  map[string]boolFact
	closed bool
}

type boolFact struct {
	val  bool
	info *termInfo
}

func newState() *State {
	return &State{c: map[[2]string]int{}, terms: map[string]*termInfo{}, nonnil: map[string]*termInfo{}, bools: map[string]boolFact{}}
}

func (s *State) clone() *State {
	if s == nil {
		return nil
	}
	n := newState()
	for k, v := range s.c {
		n.c[k] = v
	}
	for k, v := range s.terms {
		n.terms[k] = v
	}
	for k, v := range s.nonnil {
		n.nonnil[k] = v
	}
	for k, v := range s.bools {
		n.bools[k] = v
	}
	n.closed = s.closed
	return n
}

// NonNegFields lists integer struct fields that hold a non-negative value
// whenever they are read: every assignment to them in the module stores a
// length, a non-negative constant or a saved copy of the field itself (the
// rules package computes the set and reports it as the invariant NN1).
var NonNegFields map[*types.Var]bool

func (s *State) addTerm(t string, ti *termInfo) {
	if t == zeroTerm || t == "" {
		return
	}
	if _, ok := s.terms[t]; !ok {
		s.terms[t] = ti
		if strings.HasPrefix(t, "len(") {
			s.le(zeroTerm, t, 0)
		}
		if ti != nil && len(ti.deps) > 0 && !ti.hasIndex && !strings.ContainsAny(t, "(+-*/ ") {
			if f := ti.deps[len(ti.deps)-1]; NonNegFields[f] && f.IsField() && strings.HasSuffix(t, "."+f.Name()) {
				s.le(zeroTerm, t, 0)
			}
		}
	}
}

// le records a - b <= k.
func (s *State) le(a, b string, k int) {
	if a == b {
		return
	}
	key := [2]string{a, b}
	if old, ok := s.c[key]; !ok || k < old {
		s.c[key] = k
		s.closed = false
	}
}

// close computes the transitive closure; returns false if infeasible.
func (s *State) close() bool {
	if s.closed {
		return true
	}
	names := []string{zeroTerm}
	for t := range s.terms {
		names = append(names, t)
	}
	sort.Strings(names)
	for _, k := range names {
		for _, i := range names {
			ik, ok := s.c[[2]string{i, k}]
			if !ok {
				continue
			}
			for _, j := range names {
				kj, ok := s.c[[2]string{k, j}]
				if !ok {
					continue
				}
				if i == j {
					if ik+kj < 0 {
						return false
					}
					continue
				}
				if old, ok := s.c[[2]string{i, j}]; !ok || ik+kj < old {
					s.c[[2]string{i, j}] = ik + kj
				}
			}
		}
	}
	s.closed = true
	return true
}

// implies reports whether a - b <= k follows from the state.
func (s *State) implies(a, b string, k int) bool {
	if a == b {
		return 0 <= k
	}
	if !s.close() {
		return true // infeasible state: everything holds
	}
	if v, ok := s.c[[2]string{a, b}]; ok && v <= k {
		return true
	}
	// implicit len >= 0 for terms never registered
	if a == zeroTerm && strings.HasPrefix(b, "len(") && 0 <= k {
		return true
	}
	return false
}

func dependsOn(ti *termInfo, v *types.Var) bool {
	for _, d := range ti.deps {
		if d == v {
			return true
		}
	}
	return false
}

// kill forgets every fact depending on v.
func (s *State) kill(v *types.Var) {
	s.killIf(func(ti *termInfo) bool { return dependsOn(ti, v) })
}

func (s *State) killIf(pred func(*termInfo) bool) {
	var dead []string
	for t, ti := range s.terms {
		if pred(ti) {
			dead = append(dead, t)
		}
	}
	if len(dead) > 0 {
		s.close()
		for _, t := range dead {
			s.dropTerm(t)
		}
	}
	for t, ti := range s.nonnil {
		if pred(ti) {
			delete(s.nonnil, t)
		}
	}
	for t, bf := range s.bools {
		if pred(bf.info) {
			delete(s.bools, t)
		}
	}
}

func (s *State) dropTerm(t string) {
	delete(s.terms, t)
	for k := range s.c {
		if k[0] == t || k[1] == t {
			delete(s.c, k)
		}
	}
}

// killTerm forgets one term only.
func (s *State) killTerm(t string) {
	if _, ok := s.terms[t]; ok {
		s.close()
		s.dropTerm(t)
	}
}

// join computes the intersection of facts (nil = bottom).
func join(a, b *State) *State {
	if a == nil {
		return b.clone()
	}
	if b == nil {
		return a.clone()
	}
	if !a.close() {
		return b.clone()
	}
	if !b.close() {
		return a.clone()
	}
	n := newState()
	for t, ti := range a.terms {
		if _, ok := b.terms[t]; ok {
			n.terms[t] = ti
		}
	}
	for k, va := range a.c {
		if vb, ok := b.c[k]; ok {
			if vb > va {
				va = vb
			}
			n.c[k] = va
		}
	}
	for t, ti := range a.nonnil {
		if _, ok := b.nonnil[t]; ok {
			n.nonnil[t] = ti
		}
	}
	for t, bf := range a.bools {
		if bb, ok := b.bools[t]; ok && bb.val == bf.val {
			n.bools[t] = bf
		}
	}
	n.closed = false
	return n
}

func equalState(a, b *State) bool {
	if a == nil || b == nil {
		return a == b
	}
	a.close()
	b.close()
	if len(a.c) != len(b.c) || len(a.nonnil) != len(b.nonnil) || len(a.bools) != len(b.bools) || len(a.terms) != len(b.terms) {
		return false
	}
	for k, v := range a.c {
		if w, ok := b.c[k]; !ok || w != v {
			return false
		}
	}
	for k := range a.nonnil {
		if _, ok := b.nonnil[k]; !ok {
			return false
		}
	}
	for k, v := range a.bools {
		if w, ok := b.bools[k]; !ok || w.val != v.val {
			return false
		}
	}
	return true
}

// widen drops every constraint of next that differs from prev.
func widen(prev, next *State) *State {
	if prev == nil || next == nil {
		return next
	}
	prev.close()
	next.close()
	n := next.clone()
	for k, v := range next.c {
		if pv, ok := prev.c[k]; !ok || pv != v {
			delete(n.c, k)
		}
	}
	n.closed = false
	return n
}

// ---------------------------------------------------------------------------
// Canonical expressions

// Facts is the per-function analysis context.
type Facts struct {
	F    *Func
	Info *types.Info
	CFG  *cfg.CFG
	cg   *CallGraph
	// locals that any call may change (captured and assigned in a
	// literal, address-taken, or free variables of the analysed literal)
	volatile map[*types.Var]bool
	in       map[*cfg.Block]*State
	visits   map[*cfg.Block]int

	// MinLenAxiom, when set, returns a lower bound for the length of a
	// sequence-valued expression that holds by an invariant established
	// elsewhere (and the invariant's name), or 0.
	MinLenAxiom func(e ast.Expr) (int, string)
	// AssumeMinLen gives lengths assumed for parameters at function entry
	// (a precondition the caller of the analysis verifies at the call sites).
	AssumeMinLen map[*types.Var]int
	// AssumeMinLenOf lists expressions of the function (fields of its
	// parameters, `pe.Op`) whose length is assumed to be at least one at entry
	AssumeMinLenOf []ast.Expr
	// UsedAxioms collects the names of the invariants that were needed.
	UsedAxioms map[string]bool
}

func (fa *Facts) axiomMinLen(e ast.Expr) (int, string) {
	if fa.MinLenAxiom == nil {
		return 0, ""
	}
	return fa.MinLenAxiom(ast.Unparen(e))
}

// withAxiom returns st extended by the invariant on len(x), if there is one.
func (fa *Facts) withAxiom(x ast.Expr, st *State) (*State, string) {
	k, name := fa.axiomMinLen(x)
	if k <= 0 || st == nil {
		return st, ""
	}
	ln, ok, _ := fa.seqLen(x)
	if !ok || ln.Term == "" {
		return st, ""
	}
	st2 := st.clone()
	st2.addLinLE(Lin{Off: k}, ln, 0)
	return st2, name
}

// Canon returns a canonical string for a side-effect-free expression and
// the variables/fields it depends on.
func (fa *Facts) Canon(e ast.Expr) (string, *termInfo, bool) {
	ti := &termInfo{}
	s, ok := fa.canon(e, ti)
	return s, ti, ok
}

func (fa *Facts) canon(e ast.Expr, ti *termInfo) (string, bool) {
	switch e := e.(type) {
	case *ast.ParenExpr:
		return fa.canon(e.X, ti)
	case *ast.Ident:
		obj := fa.Info.Uses[e]
		if obj == nil {
			obj = fa.Info.Defs[e]
		}
		switch o := obj.(type) {
		case *types.Var:
			ti.deps = append(ti.deps, o)
			if o.Pkg() != nil && o.Parent() == o.Pkg().Scope() {
				return o.Pkg().Name() + "." + o.Name(), true
			}
			return fmt.Sprintf("%s@%d", o.Name(), o.Pos()), true
		case *types.Const:
			return o.Val().ExactString(), true
		case *types.Nil:
			return "nil", true
		}
		return "", false
	case *ast.BasicLit:
		return e.Value, true
	case *ast.SelectorExpr:
		if v := FieldOf(fa.Info, e); v != nil {
			x, ok := fa.canon(e.X, ti)
			if !ok {
				return "", false
			}
			ti.deps = append(ti.deps, v)
			return x + "." + v.Name(), true
		}
		// package-qualified var/const
		if obj, ok := fa.Info.Uses[e.Sel]; ok {
			switch o := obj.(type) {
			case *types.Const:
				return o.Val().ExactString(), true
			case *types.Var:
				if !o.IsField() {
					ti.deps = append(ti.deps, o)
					return o.Pkg().Name() + "." + o.Name(), true
				}
			}
		}
		return "", false
	case *ast.IndexExpr:
		x, ok := fa.canon(e.X, ti)
		if !ok {
			return "", false
		}
		i, ok := fa.canon(e.Index, ti)
		if !ok {
			return "", false
		}
		ti.hasIndex = true
		return x + "[" + i + "]", true
	case *ast.StarExpr:
		x, ok := fa.canon(e.X, ti)
		if !ok {
			return "", false
		}
		return "*" + x, true
	case *ast.UnaryExpr:
		x, ok := fa.canon(e.X, ti)
		if !ok {
			return "", false
		}
		return e.Op.String() + x, true
	case *ast.BinaryExpr:
		x, ok := fa.canon(e.X, ti)
		if !ok {
			return "", false
		}
		y, ok := fa.canon(e.Y, ti)
		if !ok {
			return "", false
		}
		return "(" + x + e.Op.String() + y + ")", true
	case *ast.CallExpr:
		if id, ok := e.Fun.(*ast.Ident); ok && len(e.Args) == 1 {
			if b, ok := fa.Info.Uses[id].(*types.Builtin); ok && (b.Name() == "len") {
				x, ok := fa.canon(e.Args[0], ti)
				if !ok {
					return "", false
				}
				return "len(" + x + ")", true
			}
		}
		return "", false
	case *ast.TypeAssertExpr:
		if e.Type == nil {
			return "", false
		}
		x, ok := fa.canon(e.X, ti)
		if !ok {
			return "", false
		}
		return x + ".(" + types.ExprString(e.Type) + ")", true
	}
	return "", false
}

func isInteger(t types.Type) bool {
	b, ok := t.Underlying().(*types.Basic)
	return ok && b.Info()&types.IsInteger != 0
}

// Lin is a linear form  term + off  (term "" means the constant off).
type Lin struct {
	Term string
	Off  int
	ti   *termInfo
}

func (l Lin) String() string {
	if l.Term == "" {
		return strconv.Itoa(l.Off)
	}
	if l.Off == 0 {
		return l.Term
	}
	return fmt.Sprintf("%s%+d", l.Term, l.Off)
}

func (l Lin) t() string {
	if l.Term == "" {
		return zeroTerm
	}
	return l.Term
}

// Linearize decomposes an integer expression into term+constant.
func (fa *Facts) Linearize(e ast.Expr) (Lin, bool) {
	e = ast.Unparen(e)
	if tv, ok := fa.Info.Types[e]; ok && tv.Value != nil {
		if tv.Value.Kind() == constant.Int {
			if v, ok := constant.Int64Val(tv.Value); ok {
				return Lin{Off: int(v)}, true
			}
		}
		return Lin{}, false
	}
	switch e := e.(type) {
	case *ast.BinaryExpr:
		if e.Op == token.ADD || e.Op == token.SUB {
			x, okx := fa.Linearize(e.X)
			y, oky := fa.Linearize(e.Y)
			if okx && oky {
				if y.Term == "" {
					if e.Op == token.ADD {
						x.Off += y.Off
					} else {
						x.Off -= y.Off
					}
					return x, true
				}
				if x.Term == "" && e.Op == token.ADD {
					y.Off += x.Off
					return y, true
				}
			}
		}
		return Lin{}, false
	case *ast.CallExpr:
		// conversions between integer types
		if tv, ok := fa.Info.Types[e.Fun]; ok && tv.IsType() && len(e.Args) == 1 {
			if at, ok := fa.Info.Types[e.Args[0]]; ok && isInteger(tv.Type) && isInteger(at.Type) {
				return fa.Linearize(e.Args[0])
			}
			return Lin{}, false
		}
	}
	if t := fa.typeOf(e); t == nil || !isInteger(t) {
		return Lin{}, false
	}
	s, ti, ok := fa.Canon(e)
	if !ok {
		return Lin{}, false
	}
	return Lin{Term: s, ti: ti}, true
}

func (s *State) reg(l Lin) {
	if l.Term != "" {
		s.addTerm(l.Term, l.ti)
	}
}

// addLinLE records  a <= b + k  i.e. (a) - (b) <= k for linear forms.
func (s *State) addLinLE(a, b Lin, k int) {
	s.reg(a)
	s.reg(b)
	if a.Term == "" && b.Term == "" {
		if a.Off-b.Off > k {
			// contradiction: mark infeasible
			s.c[[2]string{zeroTerm, "#false"}] = -1
			s.c[[2]string{"#false", zeroTerm}] = -1
			s.terms["#false"] = &termInfo{}
			s.closed = false
		}
		return
	}
	s.le(a.t(), b.t(), k-a.Off+b.Off)
}

// ProveLinLE reports whether a <= b + k is implied.
func (s *State) ProveLinLE(a, b Lin, k int) bool {
	if s == nil {
		return true
	}
	if a.Term == "" && b.Term == "" {
		if a.Off-b.Off <= k {
			return true
		}
		return !s.close()
	}
	return s.implies(a.t(), b.t(), k-a.Off+b.Off)
}

// NonNil reports whether the canonical path is known non-nil.
func (s *State) NonNil(path string) bool {
	if s == nil {
		return true
	}
	if !s.close() {
		return true
	}
	_, ok := s.nonnil[path]
	return ok
}

// Dump renders the facts involving any of the given substrings (for
// diagnostics).
func (s *State) Dump(about ...string) string {
	if s == nil {
		return "unreachable"
	}
	s.close()
	var out []string
	for k, v := range s.c {
		hit := len(about) == 0
		for _, a := range about {
			if a != "" && (strings.Contains(k[0], a) || strings.Contains(k[1], a)) {
				hit = true
			}
		}
		if hit {
			out = append(out, fmt.Sprintf("%s-%s<=%d", stripPos(k[0]), stripPos(k[1]), v))
		}
	}
	sort.Strings(out)
	if len(out) > 12 && len(about) > 0 {
		out = out[:12]
	}
	return strings.Join(out, ", ")
}

func stripPos(s string) string {
	var b strings.Builder
	for i := 0; i < len(s); i++ {
		if s[i] == '@' {
			for i+1 < len(s) && s[i+1] >= '0' && s[i+1] <= '9' {
				i++
			}
			continue
		}
		b.WriteByte(s[i])
	}
	return b.String()
}

// StripPos removes the @offset disambiguators from canonical strings.
func StripPos(s string) string { return stripPos(s) }

// CloneState and JoinStates expose state copying/joining to rule code.
func CloneState(s *State) *State {
	if s == nil {
		return nil
	}
	return s.clone()
}

func JoinStates(a, b *State) *State {
	if a == nil {
		return CloneState(b)
	}
	if b == nil {
		return a
	}
	return join(a, b)
}
