package core

import (
	"go/ast"
	"go/types"
	"sort"
)

// CallGraph is a reference-based over-approximation of the repository's
// call graph: F -> G when F's body mentions G (call or function value), when
// F makes an interface call that a repo type may implement (CHA), or when F
// calls a function value whose signature is identical to an address-taken
// function or literal.
type CallGraph struct {
	Edges     map[*Func]map[*Func]bool
	AddrTaken map[*Func]bool
	// Mod is the transitive set of struct fields a function may assign.
	Mod map[*Func]map[*types.Var]bool
	// External records whether the function (transitively) calls code
	// outside the repository.
	prog *Program
}

// OwnNodes walks the body of f without descending into nested literals.
func (f *Func) OwnNodes(visit func(ast.Node) bool) {
	ast.Inspect(f.Body, func(n ast.Node) bool {
		if fl, ok := n.(*ast.FuncLit); ok && fl != f.Lit {
			return false
		}
		if n == nil {
			return true
		}
		return visit(n)
	})
}

// CG builds (once) and returns the call graph.
func (p *Program) CG() *CallGraph {
	if p.cg != nil {
		return p.cg
	}
	cg := &CallGraph{Edges: map[*Func]map[*Func]bool{}, AddrTaken: map[*Func]bool{},
		Mod: map[*Func]map[*types.Var]bool{}, prog: p}
	p.cg = cg
	// pass 1: address-taken functions
	for _, f := range p.Funcs {
		if f.Lit != nil {
			cg.AddrTaken[f] = true
		}
		info := f.Info()
		calleeIdents := map[*ast.Ident]bool{}
		f.OwnNodes(func(n ast.Node) bool {
			if c, ok := n.(*ast.CallExpr); ok {
				if id := funIdent(c.Fun); id != nil {
					calleeIdents[id] = true
				}
			}
			return true
		})
		f.OwnNodes(func(n ast.Node) bool {
			id, ok := n.(*ast.Ident)
			if !ok || calleeIdents[id] {
				return true
			}
			if fo, ok := info.Uses[id].(*types.Func); ok {
				if g := p.FuncOf(fo); g != nil {
					cg.AddrTaken[g] = true
				}
			}
			return true
		})
	}
	// pass 2: edges
	for _, f := range p.Funcs {
		es := map[*Func]bool{}
		cg.Edges[f] = es
		for _, l := range f.Lits {
			es[l] = true
		}
		info := f.Info()
		f.OwnNodes(func(n ast.Node) bool {
			switch n := n.(type) {
			case *ast.Ident:
				if fo, ok := info.Uses[n].(*types.Func); ok {
					for _, g := range cg.resolve(fo) {
						es[g] = true
					}
				}
			case *ast.CallExpr:
				for _, g := range cg.Callees(f, n) {
					es[g] = true
				}
			}
			return true
		})
	}
	cg.computeMod()
	return cg
}

func funIdent(e ast.Expr) *ast.Ident {
	switch e := e.(type) {
	case *ast.Ident:
		return e
	case *ast.SelectorExpr:
		return e.Sel
	case *ast.ParenExpr:
		return funIdent(e.X)
	case *ast.IndexExpr:
		return funIdent(e.X)
	}
	return nil
}

// resolve maps a function object to repo bodies: itself, or for an
// interface method every repo implementation.
func (cg *CallGraph) resolve(fo *types.Func) []*Func {
	p := cg.prog
	if g := p.FuncOf(fo); g != nil {
		return []*Func{g}
	}
	sig, _ := fo.Type().(*types.Signature)
	if sig == nil || sig.Recv() == nil {
		return nil
	}
	it, ok := sig.Recv().Type().Underlying().(*types.Interface)
	if !ok {
		return nil
	}
	var out []*Func
	for _, g := range p.Funcs {
		if g.Obj == nil || g.Obj.Name() != fo.Name() {
			continue
		}
		gs := g.Obj.Type().(*types.Signature)
		if gs.Recv() == nil {
			continue
		}
		rt := gs.Recv().Type()
		if types.Implements(rt, it) || types.Implements(types.NewPointer(rt), it) {
			out = append(out, g)
		}
	}
	return out
}

// StaticCallee returns the function object a call statically names, if any.
func StaticCallee(info *types.Info, c *ast.CallExpr) *types.Func {
	id := funIdent(c.Fun)
	if id == nil {
		return nil
	}
	fo, _ := info.Uses[id].(*types.Func)
	return fo
}

// IsConversionOrBuiltin reports calls that are not function calls.
func IsConversionOrBuiltin(info *types.Info, c *ast.CallExpr) bool {
	if tv, ok := info.Types[c.Fun]; ok && tv.IsType() {
		return true
	}
	if id := funIdent(c.Fun); id != nil {
		if _, ok := info.Uses[id].(*types.Builtin); ok {
			return true
		}
	}
	return false
}

// Callees returns the repo functions a call may invoke.
func (cg *CallGraph) Callees(f *Func, c *ast.CallExpr) []*Func {
	info := f.Info()
	if IsConversionOrBuiltin(info, c) {
		return nil
	}
	if fo := StaticCallee(info, c); fo != nil {
		return cg.resolve(fo)
	}
	// immediately invoked literal
	if fl, ok := ast.Unparen(c.Fun).(*ast.FuncLit); ok {
		if g := cg.prog.FuncOfLit(fl); g != nil {
			return []*Func{g}
		}
	}
	// dynamic call through a function value
	tv, ok := info.Types[c.Fun]
	if !ok {
		return nil
	}
	sig, ok := tv.Type.Underlying().(*types.Signature)
	if !ok {
		return nil
	}
	// a local variable bound once to a literal: precise target
	if id, ok := ast.Unparen(c.Fun).(*ast.Ident); ok {
		if v, ok := info.Uses[id].(*types.Var); ok {
			if g := cg.prog.litBoundTo(f, v); g != nil {
				return []*Func{g}
			}
		}
	}
	var out []*Func
	for g := range cg.AddrTaken {
		var gs *types.Signature
		if g.Obj != nil {
			gs = g.Obj.Type().(*types.Signature)
		} else if t, ok := g.Info().Types[g.Lit]; ok {
			gs, _ = t.Type.(*types.Signature)
		}
		if gs != nil && sameSig(gs, sig) {
			out = append(out, g)
		}
	}
	sort.Slice(out, func(i, j int) bool { return out[i].Name < out[j].Name })
	return out
}

// litBoundTo returns the literal a local variable is bound to when the
// variable is defined by `v := func…` and never reassigned.
func (p *Program) litBoundTo(f *Func, v *types.Var) *Func {
	root := f.Root()
	var lit *ast.FuncLit
	n := 0
	ast.Inspect(root.Body, func(x ast.Node) bool {
		as, ok := x.(*ast.AssignStmt)
		if !ok {
			return true
		}
		for i, l := range as.Lhs {
			id, ok := l.(*ast.Ident)
			if !ok {
				continue
			}
			if f.Info().Defs[id] == v || f.Info().Uses[id] == v {
				n++
				if i < len(as.Rhs) && len(as.Lhs) == len(as.Rhs) {
					lit, _ = as.Rhs[i].(*ast.FuncLit)
				}
			}
		}
		return true
	})
	if n == 1 && lit != nil {
		return p.byLit[lit]
	}
	return nil
}

func sameSig(a, b *types.Signature) bool {
	if a.Params().Len() != b.Params().Len() || a.Results().Len() != b.Results().Len() || a.Variadic() != b.Variadic() {
		return false
	}
	for i := 0; i < a.Params().Len(); i++ {
		if !types.Identical(a.Params().At(i).Type(), b.Params().At(i).Type()) {
			return false
		}
	}
	for i := 0; i < a.Results().Len(); i++ {
		if !types.Identical(a.Results().At(i).Type(), b.Results().At(i).Type()) {
			return false
		}
	}
	return true
}

// Reachable returns every function reachable from the roots.
func (cg *CallGraph) Reachable(roots ...*Func) map[*Func]bool {
	seen := map[*Func]bool{}
	var stack []*Func
	for _, r := range roots {
		if r != nil && !seen[r] {
			seen[r] = true
			stack = append(stack, r)
		}
	}
	for len(stack) > 0 {
		f := stack[len(stack)-1]
		stack = stack[:len(stack)-1]
		for g := range cg.Edges[f] {
			if !seen[g] {
				seen[g] = true
				stack = append(stack, g)
			}
		}
	}
	return seen
}

// ReachableStop is Reachable, but does not follow edges out of functions
// for which stop returns true (the function itself is still included).
func (cg *CallGraph) ReachableStop(stop func(*Func) bool, roots ...*Func) map[*Func]bool {
	seen := map[*Func]bool{}
	var stack []*Func
	for _, r := range roots {
		if r != nil && !seen[r] {
			seen[r] = true
			stack = append(stack, r)
		}
	}
	for len(stack) > 0 {
		f := stack[len(stack)-1]
		stack = stack[:len(stack)-1]
		if stop(f) {
			continue
		}
		for g := range cg.Edges[f] {
			if !seen[g] {
				seen[g] = true
				stack = append(stack, g)
			}
		}
	}
	return seen
}

// FieldOf resolves a selector expression to the struct field it denotes.
func FieldOf(info *types.Info, e ast.Expr) *types.Var {
	se, ok := ast.Unparen(e).(*ast.SelectorExpr)
	if !ok {
		return nil
	}
	if sel, ok := info.Selections[se]; ok && sel.Kind() == types.FieldVal {
		if v, ok := sel.Obj().(*types.Var); ok {
			return v
		}
	}
	return nil
}

// directMod lists the fields f itself assigns (x.f = …, x.f++, &x.f, and
// x.f as an element of an assignment's left side counts only when the
// field itself is the target).
func directMod(f *Func) map[*types.Var]bool {
	out := map[*types.Var]bool{}
	info := f.Info()
	mark := func(e ast.Expr) {
		if v := FieldOf(info, e); v != nil {
			out[v] = true
		}
	}
	f.OwnNodes(func(n ast.Node) bool {
		switch n := n.(type) {
		case *ast.AssignStmt:
			for _, l := range n.Lhs {
				mark(l)
			}
		case *ast.IncDecStmt:
			mark(n.X)
		case *ast.UnaryExpr:
			if n.Op.String() == "&" {
				mark(n.X)
			}
		case *ast.RangeStmt:
			if n.Key != nil {
				mark(n.Key)
			}
			if n.Value != nil {
				mark(n.Value)
			}
		}
		return true
	})
	return out
}

func (cg *CallGraph) computeMod() {
	p := cg.prog
	for _, f := range p.Funcs {
		cg.Mod[f] = directMod(f)
	}
	for changed := true; changed; {
		changed = false
		for _, f := range p.Funcs {
			m := cg.Mod[f]
			for g := range cg.Edges[f] {
				for v := range cg.Mod[g] {
					if !m[v] {
						m[v] = true
						changed = true
					}
				}
			}
		}
	}
}

// CallMod returns the fields a call may assign.
func (cg *CallGraph) CallMod(f *Func, c *ast.CallExpr) map[*types.Var]bool {
	out := map[*types.Var]bool{}
	for _, g := range cg.Callees(f, c) {
		for v := range cg.Mod[g] {
			out[v] = true
		}
	}
	return out
}
