package core

import (
	"go/ast"

	"golang.org/x/tools/go/cfg"
)

// FlowNodes returns the CFG of f together with a flattened order of the
// expression/statement nodes inside each block (sub-expressions in source
// order, nested function literals excluded).
type Flow struct {
	F   *Func
	CFG *cfg.CFG
}

// CondOracle, when set, decides conditions whose value is fixed for every run
// that enters the library through its documented entry points (a test of an
// option field nobody but an option setter writes).  NewFlow removes the edge
// such a condition never takes, so that code an unset option switches off does
// not count as a path.
var CondOracle func(f *Func, cond ast.Expr) (val, known bool)

func NewFlow(f *Func) *Flow {
	g := cfg.New(f.Body, MayReturn(f.Info()))
	if CondOracle != nil {
		for _, b := range g.Blocks {
			if len(b.Succs) != 2 || len(b.Nodes) == 0 {
				continue
			}
			cond, ok := b.Nodes[len(b.Nodes)-1].(ast.Expr)
			if !ok {
				continue
			}
			if val, known := CondOracle(f, cond); known {
				if val {
					b.Succs = b.Succs[:1]
				} else {
					b.Succs = b.Succs[1:]
				}
			}
		}
	}
	return &Flow{F: f, CFG: g}
}

// subnodes lists n and its descendants in source order, without entering
// function literals.
func subnodes(n ast.Node) []ast.Node {
	var out []ast.Node
	ast.Inspect(n, func(x ast.Node) bool {
		if x == nil {
			return true
		}
		if _, ok := x.(*ast.FuncLit); ok {
			out = append(out, x)
			return false
		}
		out = append(out, x)
		return true
	})
	return out
}

// MustSeen runs a forward must-analysis with a single boolean: "an event
// has occurred on every path since the last reset".  initial is the value
// at function entry.  It returns the value holding immediately before each
// node (sub-expressions included).  Within a statement, nodes are visited
// in post-order approximated by source order of completion: operands before
// the call that uses them is not needed by the rules using this helper,
// which place events and targets in different statements.
func (fl *Flow) MustSeen(initial bool, event, reset func(ast.Node) bool) map[ast.Node]bool {
	g := fl.CFG
	in := map[*cfg.Block]int{} // 0 unknown, 1 true, 2 false
	out := map[ast.Node]bool{}
	if len(g.Blocks) == 0 {
		return out
	}
	val := func(b bool) int {
		if b {
			return 1
		}
		return 2
	}
	in[g.Blocks[0]] = val(initial)
	work := []*cfg.Block{g.Blocks[0]}
	transfer := func(b *cfg.Block, st bool, record bool) bool {
		for _, n := range b.Nodes {
			for _, x := range subnodes(n) {
				if record {
					out[x] = st
				}
				if reset != nil && reset(x) {
					st = false
				}
				if event(x) {
					st = true
				}
			}
		}
		return st
	}
	for len(work) > 0 {
		b := work[0]
		work = work[1:]
		st := transfer(b, in[b] == 1, false)
		for _, s := range b.Succs {
			old := in[s]
			nw := val(st)
			if old == 2 {
				nw = 2 // false is absorbing (must = AND)
			}
			if old != nw {
				in[s] = nw
				work = append(work, s)
			}
		}
	}
	for _, b := range g.Blocks {
		if in[b] == 0 {
			continue
		}
		transfer(b, in[b] == 1, true)
	}
	return out
}

// Reaches reports, for each node, whether some path from a node satisfying
// from reaches it without passing a node satisfying stop (may-analysis).
func (fl *Flow) Reaches(from, stop func(ast.Node) bool) map[ast.Node]bool {
	g := fl.CFG
	in := map[*cfg.Block]bool{}
	out := map[ast.Node]bool{}
	if len(g.Blocks) == 0 {
		return out
	}
	transfer := func(b *cfg.Block, st bool, record bool) bool {
		for _, n := range b.Nodes {
			for _, x := range subnodes(n) {
				if record {
					out[x] = st
				}
				if stop != nil && stop(x) {
					st = false
				}
				if from(x) {
					st = true
				}
			}
		}
		return st
	}
	seen := map[*cfg.Block]bool{g.Blocks[0]: true}
	work := []*cfg.Block{g.Blocks[0]}
	for len(work) > 0 {
		b := work[0]
		work = work[1:]
		st := transfer(b, in[b], false)
		for _, s := range b.Succs {
			if !seen[s] || (st && !in[s]) {
				seen[s] = true
				if st {
					in[s] = true
				}
				work = append(work, s)
			}
		}
	}
	for _, b := range g.Blocks {
		if seen[b] {
			transfer(b, in[b], true)
		}
	}
	return out
}

// MaxCount runs a forward may-analysis that counts events along paths,
// saturating at limit: the result maps each node to the largest number of
// events that can have occurred on some path before it; the second result is
// the largest count with which the function can be left.  weight gives the
// number of events a node stands for (0 for most nodes).
func (fl *Flow) MaxCount(limit int, weight func(ast.Node) int) (map[ast.Node]int, int) {
	g := fl.CFG
	out := map[ast.Node]int{}
	if len(g.Blocks) == 0 {
		return out, 0
	}
	in := map[*cfg.Block]int{}
	seen := map[*cfg.Block]bool{g.Blocks[0]: true}
	work := []*cfg.Block{g.Blocks[0]}
	exit := 0
	transfer := func(b *cfg.Block, st int, record bool) int {
		for _, n := range b.Nodes {
			for _, x := range subnodes(n) {
				if record {
					if st > out[x] {
						out[x] = st
					}
				}
				st += weight(x)
				if st > limit {
					st = limit
				}
			}
		}
		return st
	}
	for len(work) > 0 {
		b := work[0]
		work = work[1:]
		st := transfer(b, in[b], false)
		for _, s := range b.Succs {
			if !seen[s] || st > in[s] {
				if st > in[s] {
					in[s] = st
				}
				seen[s] = true
				work = append(work, s)
			}
		}
	}
	for _, b := range g.Blocks {
		if !seen[b] {
			continue
		}
		st := transfer(b, in[b], true)
		if len(b.Succs) == 0 && st > exit {
			exit = st
		}
	}
	return out, exit
}
