package core

import (
	"go/ast"
	"go/token"

	"golang.org/x/tools/go/cfg"
)

// Bits is a small set of boolean facts (must-analysis: join is AND).
type Bits uint64

// EdgeFlowSpec configures a forward must-analysis over go/cfg with
// branch-sensitive transfer.
type EdgeFlowSpec struct {
	Init Bits
	// Node transfers a fact set across one node (statement or expression,
	// sub-expressions included, in source order).
	Node func(n ast.Node, in Bits) Bits
	// Edge refines the fact set on the edge taken when cond evaluates to
	// truth.  cond is the atomic condition go/cfg leaves in the block (&& and
	// || are already decomposed); for a tagged switch it is `tag == caseExpr`
	// passed as (tag, caseExpr).
	Edge func(cond ast.Expr, tag ast.Expr, truth bool, in Bits) Bits
}

// EdgeFlow runs the analysis and returns the facts holding before each node.
func (fl *Flow) EdgeFlow(spec EdgeFlowSpec) map[ast.Node]Bits {
	g := fl.CFG
	const top = ^Bits(0)
	in := map[*cfg.Block]Bits{}
	seen := map[*cfg.Block]bool{}
	out := map[ast.Node]Bits{}
	if len(g.Blocks) == 0 {
		return out
	}
	p := fl.F.Prog
	condOf := func(b *cfg.Block) (cond, tag ast.Expr) {
		if len(b.Succs) != 2 || len(b.Nodes) == 0 {
			return nil, nil
		}
		switch b.Succs[0].Kind {
		case cfg.KindRangeBody, cfg.KindSelectCaseBody:
			return nil, nil
		case cfg.KindSwitchCaseBody:
			cc, ok := b.Succs[0].Stmt.(*ast.CaseClause)
			if !ok {
				return nil, nil
			}
			switch sw := p.Parent(p.Parent(cc)).(type) {
			case *ast.TypeSwitchStmt:
				return nil, nil
			case *ast.SwitchStmt:
				e, _ := b.Nodes[len(b.Nodes)-1].(ast.Expr)
				return e, sw.Tag
			}
			return nil, nil
		}
		e, _ := b.Nodes[len(b.Nodes)-1].(ast.Expr)
		return e, nil
	}
	transfer := func(b *cfg.Block, st Bits, record bool) Bits {
		for _, n := range b.Nodes {
			for _, x := range subnodes(n) {
				if record {
					out[x] = st
				}
				if spec.Node != nil {
					st = spec.Node(x, st)
				}
			}
		}
		return st
	}
	edge := func(b *cfg.Block, i int, st Bits) Bits {
		if spec.Edge == nil {
			return st
		}
		cond, tag := condOf(b)
		if cond == nil {
			return st
		}
		return refine(spec.Edge, cond, tag, i == 0, st)
	}
	in[g.Blocks[0]] = spec.Init
	seen[g.Blocks[0]] = true
	work := []*cfg.Block{g.Blocks[0]}
	for len(work) > 0 {
		b := work[0]
		work = work[1:]
		st := transfer(b, in[b], false)
		for i, s := range b.Succs {
			o := edge(b, i, st)
			nw := o
			if seen[s] {
				nw = in[s] & o
			}
			if !seen[s] || nw != in[s] {
				seen[s] = true
				in[s] = nw
				work = append(work, s)
			}
		}
	}
	_ = top
	for _, b := range g.Blocks {
		if seen[b] {
			transfer(b, in[b], true)
		}
	}
	return out
}

// refine peels negation off the condition before calling the user's edge
// function.
func refine(f func(cond, tag ast.Expr, truth bool, in Bits) Bits, cond, tag ast.Expr, truth bool, st Bits) Bits {
	cond = ast.Unparen(cond)
	if tag == nil {
		if u, ok := cond.(*ast.UnaryExpr); ok && u.Op == token.NOT {
			return refine(f, u.X, nil, !truth, st)
		}
		if be, ok := cond.(*ast.BinaryExpr); ok {
			// go/cfg leaves && / || intact in tagless switch cases
			switch be.Op {
			case token.LAND:
				if truth {
					return refine(f, be.Y, nil, true, refine(f, be.X, nil, true, st))
				}
				// one of the operands is false: keep what both alternatives establish
				return refine(f, be.X, nil, false, st) & refine(f, be.Y, nil, false, st)
			case token.LOR:
				if !truth {
					return refine(f, be.Y, nil, false, refine(f, be.X, nil, false, st))
				}
				return refine(f, be.X, nil, true, st) & refine(f, be.Y, nil, true, st)
			}
		}
	}
	return f(cond, tag, truth, st)
}
