package core

import (
	_ "embed"
	"encoding/json"
	"fmt"
	"go/ast"
	"go/types"
	"sort"
	"strings"

	"golang.org/x/tools/go/packages"
)

// Object-name canonicalisation (fields, unexported types, unexported
// package-level variables and constants).
//
// Rules name struct fields and package-level objects by the names they have
// in the reference tree.  When one of them has been renamed consistently (a
// behaviour-preserving edit) the loader finds its reference name from what
// does not change under a rename - its type and the set of functions that
// use it - rewrites the identifiers in the syntax trees to the reference
// name, and type-checks the packages again.  Positions are untouched, so
// reports still point at the right line; OrigName keeps the spelling found in
// the file for the one rule that compares text with goyacc's output (GR1).
// As with function names, the match only locates anchors: it never decides a
// property, and an object it cannot place simply keeps its name.

//go:embed objref.json
var objRefJSON []byte

// ObjRef describes one unexported field or package-level object of the
// reference tree.
type ObjRef struct {
	Pkg   string         `json:"pkg"`
	Owner string         `json:"owner"` // struct type name for a field, "" for a package-level object
	Name  string         `json:"name"`
	Kind  string         `json:"kind"` // field | var | const | type
	Type  string         `json:"type"` // type string (types: underlying kind)
	Uses  map[string]int `json:"uses"` // canonical function name -> number of references
}

func loadObjRefs() []ObjRef {
	var out []ObjRef
	json.Unmarshal(objRefJSON, &out)
	return out
}

func objKind(o types.Object) string {
	switch x := o.(type) {
	case *types.Var:
		if x.IsField() {
			return "field"
		}
		return "var"
	case *types.Const:
		return "const"
	case *types.TypeName:
		return "type"
	}
	return ""
}

// objects enumerates the unexported fields of package-level struct types and
// the unexported package-level vars, consts and types, with usage profiles.
func (p *Program) objects() (list []types.Object, owner map[types.Object]string, uses map[types.Object]map[string]int) {
	owner = map[types.Object]string{}
	uses = map[types.Object]map[string]int{}
	local := map[*types.Package]bool{}
	for _, pk := range p.Pkgs {
		local[pk.Types] = true
	}
	for _, name := range p.Order {
		pk := p.Pkgs[name]
		scope := pk.Types.Scope()
		for _, n := range scope.Names() {
			o := scope.Lookup(n)
			if strings.HasPrefix(n, "yy") || strings.HasPrefix(n, "_") {
				continue
			}
			switch x := o.(type) {
			case *types.TypeName:
				if !x.Exported() {
					list = append(list, x)
				}
				if st, ok := x.Type().Underlying().(*types.Struct); ok && !x.IsAlias() {
					for i := 0; i < st.NumFields(); i++ {
						f := st.Field(i)
						if f.Exported() || f.Embedded() || f.Name() == "_" {
							continue
						}
						list = append(list, f)
						owner[f] = x.Name()
					}
				}
			case *types.Var, *types.Const:
				if !o.Exported() {
					list = append(list, o)
				}
			}
		}
	}
	want := map[types.Object]bool{}
	for _, o := range list {
		want[o] = true
	}
	for _, f := range p.Funcs {
		if f.Decl == nil {
			continue
		}
		info := f.Info()
		ast.Inspect(f.Decl, func(n ast.Node) bool {
			id, ok := n.(*ast.Ident)
			if !ok {
				return true
			}
			o := info.Uses[id]
			if o == nil || !want[o] {
				return true
			}
			if uses[o] == nil {
				uses[o] = map[string]int{}
			}
			uses[o][f.Name]++
			return true
		})
	}
	return
}

func (p *Program) typeStr(o types.Object) string {
	q := func(pk *types.Package) string { return pk.Name() }
	if tn, ok := o.(*types.TypeName); ok {
		switch u := tn.Type().Underlying().(type) {
		case *types.Struct:
			return fmt.Sprintf("struct/%d", u.NumFields())
		case *types.Interface:
			return fmt.Sprintf("interface/%d", u.NumMethods())
		default:
			return types.TypeString(u, q)
		}
	}
	return types.TypeString(o.Type(), q)
}

// GenObjRefs builds the reference table from the program (tooling).
func (p *Program) GenObjRefs() []ObjRef {
	list, owner, uses := p.objects()
	var out []ObjRef
	for _, o := range list {
		out = append(out, ObjRef{Pkg: o.Pkg().Name(), Owner: owner[o], Name: o.Name(), Kind: objKind(o), Type: p.typeStr(o), Uses: uses[o]})
	}
	sort.Slice(out, func(i, j int) bool {
		a, b := out[i], out[j]
		if a.Pkg != b.Pkg {
			return a.Pkg < b.Pkg
		}
		if a.Owner != b.Owner {
			return a.Owner < b.Owner
		}
		return a.Name < b.Name
	})
	return out
}

func useSimilarity(a, b map[string]int) float64 {
	if len(a) == 0 && len(b) == 0 {
		return 0
	}
	inter, union := 0, 0
	for k, x := range a {
		y := b[k]
		if x < y {
			inter += x
			union += y
		} else {
			inter += y
			union += x
		}
	}
	for k, y := range b {
		if _, ok := a[k]; !ok {
			union += y
		}
	}
	if union == 0 {
		return 0
	}
	return float64(inter) / float64(union)
}

// objectRenames returns, for every renamed object it can place, the reference
// name.
func (p *Program) objectRenames() map[types.Object]string {
	refs := loadObjRefs()
	if len(refs) == 0 {
		return nil
	}
	list, owner, uses := p.objects()
	type key struct{ pkg, owner, name string }
	cur := map[key]types.Object{}
	for _, o := range list {
		cur[key{o.Pkg().Name(), owner[o], o.Name()}] = o
	}
	refKeys := map[key]bool{}
	for _, r := range refs {
		refKeys[key{r.Pkg, r.Owner, r.Name}] = true
	}
	out := map[types.Object]string{}
	// 1. types, then the rest (so that owners and type strings can be mapped)
	typeCanon := map[string]string{} // pkg.actual -> canonical
	for pass := 0; pass < 2; pass++ {
		type pair struct {
			r     ObjRef
			o     types.Object
			score float64
		}
		var pairs []pair
		for _, r := range refs {
			if (r.Kind == "type") != (pass == 0) || p.Pkgs[r.Pkg] == nil {
				continue
			}
			if _, present := cur[key{r.Pkg, r.Owner, r.Name}]; present {
				continue
			}
			for _, o := range list {
				if o.Pkg().Name() != r.Pkg || objKind(o) != r.Kind {
					continue
				}
				ow := owner[o]
				if c, ok := typeCanon[r.Pkg+"."+ow]; ok {
					ow = c
				}
				if ow != r.Owner || refKeys[key{r.Pkg, ow, o.Name()}] {
					continue
				}
				ts := p.typeStr(o)
				for actual, canon := range typeCanon {
					pkgName, a := actual[:strings.Index(actual, ".")], actual[strings.Index(actual, ".")+1:]
					if pkgName == r.Pkg {
						ts = replaceWord(ts, a, canon)
						ts = replaceWord(ts, pkgName+"."+a, pkgName+"."+canon)
					}
				}
				if ts != r.Type {
					continue
				}
				s := useSimilarity(r.Uses, uses[o])
				pairs = append(pairs, pair{r, o, s})
			}
		}
		sort.SliceStable(pairs, func(i, j int) bool { return pairs[i].score > pairs[j].score })
		usedR, usedO := map[key]bool{}, map[types.Object]bool{}
		// how many candidates compete for each reference / object (for the no-profile case)
		nR, nO := map[key]int{}, map[types.Object]int{}
		for _, pr := range pairs {
			nR[key{pr.r.Pkg, pr.r.Owner, pr.r.Name}]++
			nO[pr.o]++
		}
		for _, pr := range pairs {
			k := key{pr.r.Pkg, pr.r.Owner, pr.r.Name}
			if usedR[k] || usedO[pr.o] {
				continue
			}
			unique := nR[k] == 1 && nO[pr.o] == 1
			if pr.score < 0.5 && !unique {
				continue
			}
			usedR[k], usedO[pr.o] = true, true
			out[pr.o] = pr.r.Name
			if pass == 0 {
				typeCanon[pr.r.Pkg+"."+pr.o.Name()] = pr.r.Name
			}
		}
	}
	return out
}

func replaceWord(s, old, new string) string {
	if old == "" {
		return s
	}
	var b strings.Builder
	for i := 0; i < len(s); {
		if strings.HasPrefix(s[i:], old) {
			before := i == 0 || !isIdentByte(s[i-1])
			j := i + len(old)
			after := j == len(s) || !isIdentByte(s[j])
			if before && after {
				b.WriteString(new)
				i = j
				continue
			}
		}
		b.WriteByte(s[i])
		i++
	}
	return b.String()
}

func isIdentByte(c byte) bool {
	return c == '_' || c == '.' || c >= '0' && c <= '9' || c >= 'a' && c <= 'z' || c >= 'A' && c <= 'Z' || c >= 0x80
}

// applyRenames rewrites the identifiers of renamed objects to their reference
// names and type-checks the packages again.
func (p *Program) applyRenames(ren map[types.Object]string) error {
	// a reference name that is already taken in the same scope cannot be used
	for o, nm := range ren {
		if v, ok := o.(*types.Var); ok && v.IsField() {
			continue
		}
		if o.Pkg().Scope().Lookup(nm) != nil {
			delete(ren, o)
		}
	}
	if len(ren) == 0 {
		return nil
	}
	if p.OrigName == nil {
		p.OrigName = map[*ast.Ident]string{}
	}
	for _, name := range p.Order {
		pk := p.Pkgs[name]
		for _, file := range pk.Syntax {
			ast.Inspect(file, func(n ast.Node) bool {
				id, ok := n.(*ast.Ident)
				if !ok {
					return true
				}
				o := pk.TypesInfo.Defs[id]
				if o == nil {
					o = pk.TypesInfo.Uses[id]
				}
				if nm, ok := ren[o]; ok && id.Name != nm {
					p.OrigName[id] = id.Name
					id.Name = nm
				}
				return true
			})
		}
	}
	for o, nm := range ren {
		p.RenamedObjs = append(p.RenamedObjs, fmt.Sprintf("%s %s.%s -> %s", objKind(o), o.Pkg().Name(), o.Name(), nm))
	}
	sort.Strings(p.RenamedObjs)
	return p.recheck()
}

type importerFunc func(path string) (*types.Package, error)

func (f importerFunc) Import(path string) (*types.Package, error) { return f(path) }

// recheck type-checks the repository's packages again, in dependency order,
// from their (rewritten) syntax trees.
func (p *Program) recheck() error {
	byPath := map[string]*packages.Package{}
	for _, pk := range p.Pkgs {
		byPath[pk.PkgPath] = pk
	}
	done := map[string]*types.Package{}
	var visit func(pk *packages.Package) error
	visit = func(pk *packages.Package) error {
		if done[pk.PkgPath] != nil {
			return nil
		}
		for path := range pk.Imports {
			if dep := byPath[path]; dep != nil {
				if err := visit(dep); err != nil {
					return err
				}
			}
		}
		info := &types.Info{
			Types:      map[ast.Expr]types.TypeAndValue{},
			Defs:       map[*ast.Ident]types.Object{},
			Uses:       map[*ast.Ident]types.Object{},
			Implicits:  map[ast.Node]types.Object{},
			Selections: map[*ast.SelectorExpr]*types.Selection{},
			Scopes:     map[ast.Node]*types.Scope{},
			Instances:  map[*ast.Ident]types.Instance{},
		}
		conf := types.Config{
			Sizes: pk.TypesSizes,
			Importer: importerFunc(func(path string) (*types.Package, error) {
				if t := done[path]; t != nil {
					return t, nil
				}
				if dep := pk.Imports[path]; dep != nil && dep.Types != nil {
					return dep.Types, nil
				}
				return nil, fmt.Errorf("import %q not loaded", path)
			}),
		}
		if pk.Module != nil && pk.Module.GoVersion != "" {
			conf.GoVersion = "go" + pk.Module.GoVersion
		}
		tp, err := conf.Check(pk.PkgPath, p.Fset, pk.Syntax, info)
		if err != nil {
			return fmt.Errorf("re-checking %s after name canonicalisation: %v", pk.PkgPath, err)
		}
		pk.Types, pk.TypesInfo = tp, info
		done[pk.PkgPath] = tp
		return nil
	}
	for _, name := range p.Order {
		if err := visit(p.Pkgs[name]); err != nil {
			return err
		}
	}
	return nil
}
