// Package core holds the shared machinery of the go.sh static checker:
// loading the type-checked program, a reference-based call graph, field
// mod-sets, control-flow helpers, the guard (fact) engine and reporting.
package core

import (
	"fmt"
	"go/ast"
	"go/parser"
	"go/token"
	"go/types"
	"os"
	"path/filepath"
	"sort"
	"strings"

	"golang.org/x/tools/go/packages"
)

// Program is the type-checked view of the repository under analysis.
type Program struct {
	Repo   string
	GOOS   string
	GOARCH string
	Fset   *token.FileSet
	Pkgs   map[string]*packages.Package // by package name
	Order  []string                     // sorted package names
	Funcs  []*Func
	byObj  map[*types.Func]*Func
	byName map[string]*Func
	byLit  map[*ast.FuncLit]*Func

	// Gen describes generated (goyacc) files, by base name of the .go file.
	Gen map[string]*GenFile

	parents map[ast.Node]ast.Node
	cg      *CallGraph
	// Renamed lists functions that were mapped back to their reference names.
	Renamed []string
	// RenamedObjs lists fields, types, variables and constants mapped back to
	// their reference names; OrigName is the spelling found in the file for
	// every identifier rewritten on that account.
	RenamedObjs []string
	OrigName    map[*ast.Ident]string
}

// CurrentProgram is the program loaded last (name canonicalisation hook for
// helpers that only have a types.Func).
var CurrentProgram *Program

// GenFile describes a goyacc output file and its grammar.
type GenFile struct {
	Pkg      string
	GoFile   string // absolute
	YFile    string // absolute
	TailFunc map[string]bool
	TailType map[string]bool
}

// Func is one function body: a declaration or a literal.
type Func struct {
	Prog   *Program
	Pkg    *packages.Package
	Name   string // e.g. parser.(*lexer).read, parser.(*lexer).lexHeredoc$1 (reference-tree name)
	Short  string // e.g. (*lexer).read
	Actual string // the name in the analysed tree when it differs from Name
	Decl   *ast.FuncDecl
	Lit    *ast.FuncLit
	Parent *Func
	Obj    *types.Func
	Body   *ast.BlockStmt
	Type   *ast.FuncType
	File   *ast.File
	// Generated marks code emitted by goyacc (driver and reduce actions),
	// as opposed to the hand-written tail copied from the grammar file.
	Generated bool
	Lits      []*Func
}

func (f *Func) Info() *types.Info { return f.Pkg.TypesInfo }
func (f *Func) Pos() token.Pos {
	if f.Decl != nil {
		return f.Decl.Pos()
	}
	return f.Lit.Pos()
}

// Root returns the enclosing declared function.
func (f *Func) Root() *Func {
	for f.Parent != nil {
		f = f.Parent
	}
	return f
}

// Load type-checks the five packages of the repository.
func Load(repo, goos, goarch string) (*Program, error) {
	fset := token.NewFileSet()
	env := append(os.Environ(),
		"GOFLAGS=-mod=mod", "GOPROXY=off", "GOSUMDB=off", "GOTOOLCHAIN=local",
		"GOWORK=off", "CGO_ENABLED=0")
	if goos != "" {
		env = append(env, "GOOS="+goos)
	} else {
		goos = "linux"
		env = append(env, "GOOS=linux")
	}
	if goarch != "" {
		env = append(env, "GOARCH="+goarch)
	} else {
		goarch = "amd64"
		env = append(env, "GOARCH=amd64")
	}
	cfg := &packages.Config{
		Mode:  packages.LoadSyntax | packages.NeedModule,
		Dir:   repo,
		Fset:  fset,
		Env:   env,
		Tests: false,
	}
	pkgs, err := packages.Load(cfg, "./...")
	if err != nil {
		return nil, err
	}
	p := &Program{Repo: repo, GOOS: goos, GOARCH: goarch, Fset: fset,
		Pkgs: map[string]*packages.Package{}, byObj: map[*types.Func]*Func{},
		byName: map[string]*Func{}, byLit: map[*ast.FuncLit]*Func{}, Gen: map[string]*GenFile{},
		parents: map[ast.Node]ast.Node{}}
	for _, pk := range pkgs {
		if len(pk.Errors) != 0 {
			return nil, fmt.Errorf("package %s: %v", pk.PkgPath, pk.Errors[0])
		}
		if pk.TypesInfo == nil || pk.Types == nil {
			return nil, fmt.Errorf("package %s: no type information", pk.PkgPath)
		}
		p.Pkgs[pk.Name] = pk
		p.Order = append(p.Order, pk.Name)
	}
	sort.Strings(p.Order)
	if len(p.Pkgs) == 0 {
		return nil, fmt.Errorf("no packages loaded from %s", repo)
	}
	if err := p.index(); err != nil {
		return nil, err
	}
	if ren := p.objectRenames(); len(ren) > 0 {
		if err := p.applyRenames(ren); err != nil {
			return nil, err
		}
		if err := p.index(); err != nil {
			return nil, err
		}
	}
	CurrentProgram = p
	return p, nil
}

// index (re)builds the function tables from the packages' syntax and types.
func (p *Program) index() error {
	p.Funcs, p.Renamed, p.cg = nil, nil, nil
	p.byObj = map[*types.Func]*Func{}
	p.byName = map[string]*Func{}
	p.byLit = map[*ast.FuncLit]*Func{}
	p.Gen = map[string]*GenFile{}
	p.parents = map[ast.Node]ast.Node{}
	if err := p.findGenerated(); err != nil {
		return err
	}
	p.collectFuncs()
	p.canonicaliseNames()
	p.collectAllLits()
	return nil
}

// findGenerated finds `//go:generate goyacc ... -o X.go X.go.y` directives.
func (p *Program) findGenerated() error {
	for _, name := range p.Order {
		pk := p.Pkgs[name]
		for _, f := range pk.Syntax {
			for _, cg := range f.Comments {
				for _, c := range cg.List {
					if !strings.HasPrefix(c.Text, "//go:generate goyacc") {
						continue
					}
					fields := strings.Fields(c.Text)
					var out, y string
					for i, s := range fields {
						if s == "-o" && i+1 < len(fields) {
							out = fields[i+1]
						}
					}
					y = fields[len(fields)-1]
					dir := filepath.Dir(p.Fset.Position(f.Pos()).Filename)
					g := &GenFile{Pkg: name, GoFile: filepath.Join(dir, out), YFile: filepath.Join(dir, y),
						TailFunc: map[string]bool{}, TailType: map[string]bool{}}
					if err := g.readTail(); err != nil {
						return err
					}
					p.Gen[g.GoFile] = g
				}
			}
		}
	}
	return nil
}

// readTail parses the user-code section of the grammar (after the second
// %%) to learn which declarations of the generated file are hand-written.
func (g *GenFile) readTail() error {
	b, err := os.ReadFile(g.YFile)
	if err != nil {
		return err
	}
	s := string(b)
	i := strings.Index(s, "\n%%")
	if i < 0 {
		return fmt.Errorf("%s: no %%%% separator", g.YFile)
	}
	j := strings.Index(s[i+3:], "\n%%")
	if j < 0 {
		return nil
	}
	tail := s[i+3+j+3:]
	f, err := parser.ParseFile(token.NewFileSet(), "tail.go", "package p\n"+tail, parser.SkipObjectResolution)
	if err != nil {
		return fmt.Errorf("%s: tail does not parse as Go: %v", g.YFile, err)
	}
	for _, d := range f.Decls {
		switch d := d.(type) {
		case *ast.FuncDecl:
			n := d.Name.Name
			if d.Recv != nil && len(d.Recv.List) == 1 {
				n = recvString(d.Recv.List[0].Type) + "." + n
			}
			g.TailFunc[n] = true
		case *ast.GenDecl:
			for _, sp := range d.Specs {
				if ts, ok := sp.(*ast.TypeSpec); ok {
					g.TailType[ts.Name.Name] = true
				}
			}
		}
	}
	return nil
}

func recvString(e ast.Expr) string {
	switch e := e.(type) {
	case *ast.StarExpr:
		return "(*" + recvString(e.X) + ")"
	case *ast.Ident:
		return e.Name
	case *ast.ParenExpr:
		return recvString(e.X)
	}
	return "?"
}

func (p *Program) collectFuncs() {
	for _, name := range p.Order {
		pk := p.Pkgs[name]
		for _, file := range pk.Syntax {
			fn := p.Fset.Position(file.Pos()).Filename
			gen := p.Gen[fn]
			for _, d := range file.Decls {
				fd, ok := d.(*ast.FuncDecl)
				if !ok || fd.Body == nil {
					continue
				}
				short := fd.Name.Name
				if fd.Recv != nil && len(fd.Recv.List) == 1 {
					short = recvString(fd.Recv.List[0].Type) + "." + short
				}
				f := &Func{Prog: p, Pkg: pk, Name: name + "." + short, Short: short, Decl: fd, Body: fd.Body,
					Type: fd.Type, File: file}
				if o, ok := pk.TypesInfo.Defs[fd.Name].(*types.Func); ok {
					f.Obj = o
					p.byObj[o] = f
				}
				if gen != nil && !gen.TailFunc[short] {
					f.Generated = true
				}
				p.addFunc(f)
			}
			// parent map for the whole file
			var stack []ast.Node
			ast.Inspect(file, func(n ast.Node) bool {
				if n == nil {
					stack = stack[:len(stack)-1]
					return true
				}
				if len(stack) > 0 {
					p.parents[n] = stack[len(stack)-1]
				}
				stack = append(stack, n)
				return true
			})
		}
	}
}

func (p *Program) collectAllLits() {
	decls := append([]*Func(nil), p.Funcs...)
	for _, f := range decls {
		if f.Decl != nil {
			p.collectLits(f, f.Decl.Body)
		}
	}
}

func (p *Program) addFunc(f *Func) {
	p.Funcs = append(p.Funcs, f)
	p.byName[f.Name] = f
}

func (p *Program) collectLits(parent *Func, body ast.Node) {
	n := 0
	var walk func(owner *Func, node ast.Node)
	walk = func(owner *Func, node ast.Node) {
		ast.Inspect(node, func(x ast.Node) bool {
			if fl, ok := x.(*ast.FuncLit); ok {
				n++
				root := owner.Root()
				f := &Func{Prog: p, Pkg: owner.Pkg, Name: fmt.Sprintf("%s$%d", root.Name, n),
					Short: fmt.Sprintf("%s$%d", root.Short, n), Lit: fl, Parent: owner, Body: fl.Body,
					Type: fl.Type, File: owner.File, Generated: owner.Generated}
				owner.Lits = append(owner.Lits, f)
				p.byLit[fl] = f
				p.addFunc(f)
				walk(f, fl.Body)
				return false
			}
			return true
		})
	}
	walk(parent, body)
}

// Parent returns the syntactic parent of n.
func (p *Program) Parent(n ast.Node) ast.Node { return p.parents[n] }

// FuncByName looks up e.g. "parser.(*lexer).read".
func (p *Program) FuncByName(name string) *Func { return p.byName[name] }

// FuncOf returns the Func for a declared function object.
func (p *Program) FuncOf(o *types.Func) *Func {
	if o == nil {
		return nil
	}
	return p.byObj[o.Origin()]
}

// FuncOfLit returns the Func for a literal.
func (p *Program) FuncOfLit(l *ast.FuncLit) *Func { return p.byLit[l] }

// EnclosingFunc returns the innermost function body containing n.
func (p *Program) EnclosingFunc(n ast.Node) *Func {
	for x := n; x != nil; x = p.parents[x] {
		switch x := x.(type) {
		case *ast.FuncLit:
			if x != n {
				return p.byLit[x]
			}
		case *ast.FuncDecl:
			for _, f := range p.Funcs {
				if f.Decl == x {
					return f
				}
			}
		}
	}
	return nil
}

// PosString renders a position relative to the repository root.
func (p *Program) PosString(pos token.Pos) string {
	if !pos.IsValid() {
		return "-"
	}
	ps := p.Fset.Position(pos)
	rel, err := filepath.Rel(p.Repo, ps.Filename)
	if err != nil {
		rel = ps.Filename
	}
	return fmt.Sprintf("%s:%d:%d", rel, ps.Line, ps.Column)
}

// RelFile returns the repo-relative file name of pos.
func (p *Program) RelFile(pos token.Pos) string {
	ps := p.Fset.Position(pos)
	rel, err := filepath.Rel(p.Repo, ps.Filename)
	if err != nil {
		return ps.Filename
	}
	return rel
}

// Units summarises what was loaded.
func (p *Program) Units() map[string]interface{} {
	files, funcs, lits, gen := 0, 0, 0, 0
	var fl []string
	for _, n := range p.Order {
		for _, f := range p.Pkgs[n].Syntax {
			files++
			fl = append(fl, p.RelFile(f.Pos()))
		}
	}
	for _, f := range p.Funcs {
		if f.Lit != nil {
			lits++
		} else {
			funcs++
		}
		if f.Generated {
			gen++
		}
	}
	sort.Strings(fl)
	u := map[string]interface{}{
		"config": p.GOOS + "/" + p.GOARCH, "packages": p.Order, "files": fl, "n_files": files,
		"functions": funcs, "func_literals": lits, "generated_functions": gen,
	}
	if len(p.Renamed) > 0 {
		u["functions_mapped_to_reference_names"] = p.Renamed
	}
	if len(p.RenamedObjs) > 0 {
		u["objects_mapped_to_reference_names"] = p.RenamedObjs
	}
	return u
}
