package core

import (
	"fmt"
	"go/ast"
	"go/constant"
	"go/token"
	"go/types"
	"os"

	"golang.org/x/tools/go/cfg"
)

// Visitor is called for every expression node in evaluation order with the
// state holding immediately before that node is evaluated (after its
// operands).
type Visitor func(n ast.Node, st *State)

// NewFacts prepares the analysis of one function body.
func NewFacts(f *Func) *Facts {
	fa := &Facts{F: f, Info: f.Info(), cg: f.Prog.CG(), volatile: map[*types.Var]bool{},
		in: map[*cfg.Block]*State{}, visits: map[*cfg.Block]int{}}
	fa.CFG = cfg.New(f.Body, fa.mayReturn)
	fa.findVolatile()
	return fa
}

func (fa *Facts) mayReturn(c *ast.CallExpr) bool {
	if id, ok := c.Fun.(*ast.Ident); ok {
		if b, ok := fa.Info.Uses[id].(*types.Builtin); ok && b.Name() == "panic" {
			return false
		}
	}
	if fo := StaticCallee(fa.Info, c); fo != nil && fo.Pkg() != nil {
		switch fo.Pkg().Path() + "." + fo.Name() {
		case "os.Exit", "log.Fatal", "log.Fatalf", "log.Fatalln", "runtime.Goexit":
			return false
		}
	}
	return true
}

// MayReturn exposes the no-return classification for other CFG users.
func MayReturn(info *types.Info) func(*ast.CallExpr) bool {
	fa := &Facts{Info: info}
	return fa.mayReturn
}

func (fa *Facts) findVolatile() {
	root := fa.F.Root()
	info := fa.Info
	// locals assigned inside a literal that does not declare them, or
	// address-taken anywhere
	var walk func(n ast.Node, lit *ast.FuncLit)
	mark := func(e ast.Expr, lit *ast.FuncLit) {
		if lit == nil {
			return
		}
		if id, ok := e.(*ast.Ident); ok {
			if v, ok := info.Uses[id].(*types.Var); ok && (v.Pos() < lit.Pos() || v.Pos() > lit.End()) {
				fa.volatile[v] = true
			}
		}
	}
	walk = func(n ast.Node, lit *ast.FuncLit) {
		ast.Inspect(n, func(x ast.Node) bool {
			switch x := x.(type) {
			case *ast.FuncLit:
				if x.Body != n {
					walk(x.Body, x)
					return false
				}
			case *ast.AssignStmt:
				for _, l := range x.Lhs {
					mark(l, lit)
				}
			case *ast.IncDecStmt:
				mark(x.X, lit)
			case *ast.RangeStmt:
				if x.Tok == token.ASSIGN {
					mark(x.Key, lit)
					mark(x.Value, lit)
				}
			case *ast.UnaryExpr:
				if x.Op == token.AND {
					if id, ok := ast.Unparen(x.X).(*ast.Ident); ok {
						if v, ok := info.Uses[id].(*types.Var); ok {
							fa.volatile[v] = true
						}
					}
				}
			}
			return true
		})
	}
	walk(root.Body, nil)
	// free variables of the analysed literal that are assigned anywhere
	if fa.F.Lit != nil {
		assigned := map[*types.Var]bool{}
		ast.Inspect(root.Body, func(x ast.Node) bool {
			switch x := x.(type) {
			case *ast.AssignStmt:
				if x.Tok != token.DEFINE {
					for _, l := range x.Lhs {
						if id, ok := l.(*ast.Ident); ok {
							if v, ok := info.Uses[id].(*types.Var); ok {
								assigned[v] = true
							}
						}
					}
				}
			case *ast.IncDecStmt:
				if id, ok := x.X.(*ast.Ident); ok {
					if v, ok := info.Uses[id].(*types.Var); ok {
						assigned[v] = true
					}
				}
			}
			return true
		})
		lit := fa.F.Lit
		for v := range assigned {
			if v.Pos() < lit.Pos() || v.Pos() > lit.End() {
				fa.volatile[v] = true
			}
		}
	}
}

// Run computes the fixed point and then replays every block, calling visit
// on each expression with its pre-state.
func (fa *Facts) Run(visit Visitor) {
	g := fa.CFG
	if len(g.Blocks) == 0 {
		return
	}
	entry := g.Blocks[0]
	fa.in[entry] = newState()
	if len(fa.AssumeMinLen) > 0 && fa.F.Type.Params != nil {
		for _, fld := range fa.F.Type.Params.List {
			for _, id := range fld.Names {
				if v, ok := fa.Info.Defs[id].(*types.Var); ok && fa.AssumeMinLen[v] > 0 {
					if ln, ok, _ := fa.seqLen(id); ok && ln.Term != "" {
						fa.in[entry].addLinLE(Lin{Off: fa.AssumeMinLen[v]}, ln, 0)
					}
				}
			}
		}
	}
	for _, e := range fa.AssumeMinLenOf {
		if ln, ok, _ := fa.seqLen(e); ok && ln.Term != "" {
			fa.in[entry].addLinLE(Lin{Off: 1}, ln, 0)
		}
	}
	if fa.F.Type.Results != nil {
		for _, fld := range fa.F.Type.Results.List {
			for _, id := range fld.Names {
				if id.Name != "_" {
					fa.zeroValue(id, fa.in[entry])
				}
			}
		}
	}
	work := []*cfg.Block{entry}
	inWork := map[*cfg.Block]bool{entry: true}
	steps := 0
	for len(work) > 0 && steps < 20000 {
		steps++
		b := work[0]
		work = work[1:]
		inWork[b] = false
		st := fa.in[b].clone()
		outs := fa.flowBlock(b, st, nil)
		for i, succ := range b.Succs {
			o := outs[i]
			if o == nil {
				continue
			}
			old, seen := fa.in[succ]
			var nw *State
			if !seen || old == nil {
				nw = o.clone()
			} else {
				nw = join(old, o)
				fa.visits[succ]++
				if fa.visits[succ] > 6 {
					nw = widen(old, nw)
				}
			}
			if !seen || !equalState(old, nw) {
				fa.in[succ] = nw
				if !inWork[succ] {
					work = append(work, succ)
					inWork[succ] = true
				}
			}
		}
	}
	if os.Getenv("SA_DEBUG") == fa.F.Name {
		for _, b := range g.Blocks {
			st := fa.in[b]
			fmt.Printf("block %d %s succs=%v\n  in: %s\n", b.Index, b.Kind, succIdx(b), st.Dump())
			for _, n := range b.Nodes {
				fmt.Printf("    %T %s\n", n, fa.F.Prog.PosString(n.Pos()))
			}
		}
	}
	if visit == nil {
		return
	}
	for _, b := range g.Blocks {
		st, ok := fa.in[b]
		if !ok {
			continue // unreachable
		}
		fa.flowBlock(b, st.clone(), visit)
	}
}

// flowBlock transfers st through the nodes of b and returns the states on
// each outgoing edge.
func (fa *Facts) flowBlock(b *cfg.Block, st *State, visit Visitor) []*State {
	n := len(b.Nodes)
	var cond ast.Expr
	condKind := ""
	if len(b.Succs) == 2 {
		condKind = fa.branchKind(b)
	}
	for i, node := range b.Nodes {
		if i == n-1 && (condKind == "bool" || condKind == "case") {
			cond, _ = node.(ast.Expr)
			if cond != nil {
				fa.evalExpr(cond, st, visit)
				break
			}
		}
		fa.evalNode(node, st, visit)
	}
	outs := make([]*State, len(b.Succs))
	switch len(b.Succs) {
	case 1:
		outs[0] = st
	case 2:
		t, f := st.clone(), st.clone()
		switch condKind {
		case "bool":
			if cond != nil {
				fa.assume(cond, true, t)
				fa.assume(cond, false, f)
			}
		case "case":
			if cond != nil {
				if tag := fa.switchTag(cond); tag != nil {
					fa.assumeCmp(tag, token.EQL, cond, true, t)
					fa.assumeCmp(tag, token.EQL, cond, false, f)
				} else {
					fa.assume(cond, true, t)
					fa.assume(cond, false, f)
				}
			}
		case "range":
			if rs, ok := b.Succs[0].Stmt.(*ast.RangeStmt); ok {
				fa.assumeRange(rs, t)
				// on exit the key/value hold their last values: forget them
				fa.killTarget(rs.Key, f)
				fa.killTarget(rs.Value, f)
			}
		}
		if !t.close() {
			t = nil
		}
		if !f.close() {
			f = nil
		}
		outs[0], outs[1] = t, f
	}
	return outs
}

func (fa *Facts) branchKind(b *cfg.Block) string {
	s0 := b.Succs[0]
	switch s0.Kind {
	case cfg.KindRangeBody:
		return "range"
	case cfg.KindSelectCaseBody:
		return "select"
	case cfg.KindSwitchCaseBody:
		if cc, ok := s0.Stmt.(*ast.CaseClause); ok {
			switch fa.F.Prog.Parent(fa.F.Prog.Parent(cc)).(type) {
			case *ast.TypeSwitchStmt:
				return "typeswitch"
			}
			return "case"
		}
	}
	return "bool"
}

// switchTag returns the tag of the switch whose case list contains e.
func (fa *Facts) switchTag(e ast.Expr) ast.Expr {
	p := fa.F.Prog
	cc, ok := p.Parent(e).(*ast.CaseClause)
	if !ok {
		return nil
	}
	sw, ok := p.Parent(p.Parent(cc)).(*ast.SwitchStmt)
	if !ok {
		return nil
	}
	return sw.Tag
}

// ---------------------------------------------------------------------------
// Evaluation of nodes

func (fa *Facts) evalNode(n ast.Node, st *State, visit Visitor) {
	switch n := n.(type) {
	case *ast.AssignStmt:
		for _, r := range n.Rhs {
			fa.evalExpr(r, st, visit)
		}
		for _, l := range n.Lhs {
			fa.evalLhs(l, st, visit)
		}
		fa.assign(n, st)
	case *ast.IncDecStmt:
		fa.evalLhs(n.X, st, visit)
		d := 1
		if n.Tok == token.DEC {
			d = -1
		}
		fa.shift(n.X, d, st)
	case *ast.ExprStmt:
		fa.evalExpr(n.X, st, visit)
	case *ast.ReturnStmt:
		for _, r := range n.Results {
			fa.evalExpr(r, st, visit)
		}
	case *ast.ValueSpec:
		for _, v := range n.Values {
			fa.evalExpr(v, st, visit)
		}
		if len(n.Values) == len(n.Names) {
			for i, id := range n.Names {
				fa.assignOne(id, n.Values[i], st)
			}
		} else {
			for _, id := range n.Names {
				fa.killTarget(id, st)
				if len(n.Values) == 0 {
					fa.zeroValue(id, st)
				}
			}
		}
	case *ast.DeclStmt:
		if gd, ok := n.Decl.(*ast.GenDecl); ok {
			for _, sp := range gd.Specs {
				if vs, ok := sp.(*ast.ValueSpec); ok {
					fa.evalNode(vs, st, visit)
				}
			}
		}
	case *ast.DeferStmt:
		fa.evalCallOperands(n.Call, st, visit)
	case *ast.GoStmt:
		fa.evalCallOperands(n.Call, st, visit)
		fa.callEffects(n.Call, st) // the goroutine may run at once
	case *ast.SendStmt:
		fa.evalExpr(n.Chan, st, visit)
		fa.evalExpr(n.Value, st, visit)
	case ast.Expr:
		fa.evalExpr(n, st, visit)
	}
}

func (fa *Facts) evalCallOperands(c *ast.CallExpr, st *State, visit Visitor) {
	if se, ok := c.Fun.(*ast.SelectorExpr); ok {
		fa.evalExpr(se.X, st, visit)
	}
	for _, a := range c.Args {
		fa.evalExpr(a, st, visit)
	}
}

// evalLhs evaluates the operands of an assignment target (not the target
// itself) and reports index targets to the visitor.
func (fa *Facts) evalLhs(e ast.Expr, st *State, visit Visitor) {
	switch e := ast.Unparen(e).(type) {
	case *ast.IndexExpr:
		fa.evalExpr(e.X, st, visit)
		fa.evalExpr(e.Index, st, visit)
		if visit != nil {
			visit(e, st)
		}
	case *ast.SelectorExpr:
		fa.evalExpr(e.X, st, visit)
		if visit != nil {
			visit(e, st)
		}
	case *ast.StarExpr:
		fa.evalExpr(e.X, st, visit)
	}
}

func (fa *Facts) evalExpr(e ast.Expr, st *State, visit Visitor) {
	if e == nil || st == nil {
		return
	}
	switch e := e.(type) {
	case *ast.ParenExpr:
		fa.evalExpr(e.X, st, visit)
	case *ast.FuncLit:
		// analysed separately
	case *ast.BinaryExpr:
		if e.Op == token.LAND || e.Op == token.LOR {
			fa.evalExpr(e.X, st, visit)
			side := st.clone()
			fa.assume(e.X, e.Op == token.LAND, side)
			if side.close() {
				fa.evalExpr(e.Y, side, visit)
				// effects of evaluating Y (calls) must be reflected
				*st = *join(st, side)
			}
			return
		}
		fa.evalExpr(e.X, st, visit)
		fa.evalExpr(e.Y, st, visit)
		if visit != nil {
			visit(e, st)
		}
	case *ast.UnaryExpr:
		fa.evalExpr(e.X, st, visit)
		if visit != nil {
			visit(e, st)
		}
	case *ast.StarExpr:
		fa.evalExpr(e.X, st, visit)
		if visit != nil {
			visit(e, st)
		}
	case *ast.SelectorExpr:
		if _, ok := fa.Info.Selections[e]; ok {
			fa.evalExpr(e.X, st, visit)
			if visit != nil {
				visit(e, st)
			}
		}
	case *ast.IndexExpr:
		fa.evalExpr(e.X, st, visit)
		fa.evalExpr(e.Index, st, visit)
		if visit != nil {
			visit(e, st)
		}
	case *ast.SliceExpr:
		fa.evalExpr(e.X, st, visit)
		fa.evalExpr(e.Low, st, visit)
		fa.evalExpr(e.High, st, visit)
		fa.evalExpr(e.Max, st, visit)
		if visit != nil {
			visit(e, st)
		}
	case *ast.TypeAssertExpr:
		fa.evalExpr(e.X, st, visit)
		if visit != nil {
			visit(e, st)
		}
	case *ast.CompositeLit:
		for _, el := range e.Elts {
			if kv, ok := el.(*ast.KeyValueExpr); ok {
				if _, isField := kv.Key.(*ast.Ident); !isField {
					fa.evalExpr(kv.Key, st, visit)
				}
				fa.evalExpr(kv.Value, st, visit)
			} else {
				fa.evalExpr(el, st, visit)
			}
		}
	case *ast.KeyValueExpr:
		fa.evalExpr(e.Value, st, visit)
	case *ast.CallExpr:
		if tv, ok := fa.Info.Types[e.Fun]; ok && tv.IsType() {
			for _, a := range e.Args {
				fa.evalExpr(a, st, visit)
			}
			if visit != nil {
				visit(e, st)
			}
			return
		}
		switch fun := ast.Unparen(e.Fun).(type) {
		case *ast.SelectorExpr:
			if _, ok := fa.Info.Selections[fun]; ok {
				fa.evalExpr(fun.X, st, visit)
				if visit != nil {
					visit(fun, st) // receiver dereference
				}
			}
		case *ast.Ident:
		case *ast.FuncLit:
		default:
			fa.evalExpr(e.Fun, st, visit)
		}
		for _, a := range e.Args {
			fa.evalExpr(a, st, visit)
		}
		if visit != nil {
			visit(e, st)
		}
		fa.callEffects(e, st)
	}
}

// callEffects forgets what a call may change.
func (fa *Facts) callEffects(c *ast.CallExpr, st *State) {
	if st == nil {
		return
	}
	if id, ok := ast.Unparen(c.Fun).(*ast.Ident); ok {
		if b, ok := fa.Info.Uses[id].(*types.Builtin); ok {
			switch b.Name() {
			case "delete":
				if len(c.Args) > 0 {
					fa.killTarget(c.Args[0], st)
				}
			}
			return
		}
	}
	if tv, ok := fa.Info.Types[c.Fun]; ok && tv.IsType() {
		return
	}
	if fa.cg != nil {
		for v := range fa.cg.CallMod(fa.F, c) {
			st.kill(v)
		}
	}
	for v := range fa.volatile {
		st.kill(v)
	}
}

// killTarget forgets facts about an assignment target.
func (fa *Facts) killTarget(e ast.Expr, st *State) {
	if e == nil || st == nil {
		return
	}
	switch e := ast.Unparen(e).(type) {
	case *ast.Ident:
		if e.Name == "_" {
			return
		}
		obj := fa.Info.Defs[e]
		if obj == nil {
			obj = fa.Info.Uses[e]
		}
		if v, ok := obj.(*types.Var); ok {
			st.kill(v)
		}
	case *ast.SelectorExpr:
		if v := FieldOf(fa.Info, e); v != nil {
			st.kill(v)
		}
	case *ast.IndexExpr:
		// element write: forget indexed terms over the same base, and for
		// maps the length as well
		_, ti, ok := fa.Canon(e.X)
		isMap := false
		if tv, ok := fa.Info.Types[e.X]; ok {
			_, isMap = tv.Type.Underlying().(*types.Map)
		}
		if !ok {
			st.killIf(func(t *termInfo) bool { return t.hasIndex })
			return
		}
		st.killIf(func(t *termInfo) bool {
			if !t.hasIndex && !isMap {
				return false
			}
			for _, d := range ti.deps {
				if dependsOn(t, d) {
					return true
				}
			}
			return false
		})
	case *ast.StarExpr:
		// store through a pointer: forget everything indexed or field based
		st.killIf(func(t *termInfo) bool { return true })
	}
}

func (fa *Facts) zeroValue(id *ast.Ident, st *State) {
	obj, _ := fa.Info.Defs[id].(*types.Var)
	if obj == nil {
		return
	}
	switch t := obj.Type().Underlying().(type) {
	case *types.Slice, *types.Map:
		if s, ti, ok := fa.Canon(id); ok {
			l := Lin{Term: "len(" + s + ")", ti: ti}
			st.addLinLE(l, Lin{}, 0)
			st.addLinLE(Lin{}, l, 0)
		}
	case *types.Basic:
		if t.Info()&types.IsString != 0 {
			if s, ti, ok := fa.Canon(id); ok {
				l := Lin{Term: "len(" + s + ")", ti: ti}
				st.addLinLE(l, Lin{}, 0)
				st.addLinLE(Lin{}, l, 0)
			}
		} else if t.Info()&types.IsInteger != 0 {
			if l, ok := fa.Linearize(id); ok {
				st.addLinLE(l, Lin{}, 0)
				st.addLinLE(Lin{}, l, 0)
			}
		}
	}
}

// ---------------------------------------------------------------------------
// Assignments

func (fa *Facts) assign(n *ast.AssignStmt, st *State) {
	if st == nil {
		return
	}
	switch n.Tok {
	case token.ASSIGN, token.DEFINE:
		if len(n.Lhs) == len(n.Rhs) {
			if len(n.Lhs) == 1 {
				fa.assignOne(n.Lhs[0], n.Rhs[0], st)
				return
			}
			// parallel assignment: be conservative
			for _, l := range n.Lhs {
				fa.killTarget(l, st)
			}
			return
		}
		// multi-value call
		for _, l := range n.Lhs {
			fa.killTarget(l, st)
		}
		if len(n.Rhs) == 1 {
			if c, ok := ast.Unparen(n.Rhs[0]).(*ast.CallExpr); ok {
				fa.multiResult(n.Lhs, c, st)
			}
		}
	case token.ADD_ASSIGN, token.SUB_ASSIGN:
		if len(n.Lhs) == 1 && len(n.Rhs) == 1 {
			if tv, ok := fa.Info.Types[n.Lhs[0]]; ok && isInteger(tv.Type) {
				if r, ok := fa.Linearize(n.Rhs[0]); ok && r.Term == "" {
					d := r.Off
					if n.Tok == token.SUB_ASSIGN {
						d = -d
					}
					fa.shift(n.Lhs[0], d, st)
					return
				}
				// x += y with y >= 0 keeps lower bounds
				fa.killTarget(n.Lhs[0], st)
				return
			}
			// string +=: length grows
			if tv, ok := fa.Info.Types[n.Lhs[0]]; ok {
				if b, ok := tv.Type.Underlying().(*types.Basic); ok && b.Info()&types.IsString != 0 && n.Tok == token.ADD_ASSIGN {
					fa.grow(n.Lhs[0], fa.minLen(n.Rhs[0], st), st)
					return
				}
			}
		}
		for _, l := range n.Lhs {
			fa.killTarget(l, st)
		}
	default:
		for _, l := range n.Lhs {
			fa.killTarget(l, st)
		}
	}
}

// shift applies x = x + d.
func (fa *Facts) shift(x ast.Expr, d int, st *State) {
	l, ok := fa.Linearize(x)
	if !ok || l.Term == "" {
		fa.killTarget(x, st)
		return
	}
	st.close()
	// terms that depend on x other than x itself are lost
	t := l.Term
	upd := map[[2]string]int{}
	for k, v := range st.c {
		switch {
		case k[0] == t && k[1] != t:
			upd[k] = v + d
		case k[1] == t && k[0] != t:
			upd[k] = v - d
		}
	}
	// kill dependants (e.g. a[i]) but keep x
	var self *termInfo = st.terms[t]
	saved := map[[2]string]int{}
	for k, v := range upd {
		saved[k] = v
	}
	fa.killTarget(x, st)
	if self != nil {
		st.terms[t] = self
		for k, v := range saved {
			_, ok0 := st.terms[k[0]]
			_, ok1 := st.terms[k[1]]
			if (k[0] == zeroTerm || ok0) && (k[1] == zeroTerm || ok1) {
				st.c[k] = v
			}
		}
		st.closed = false
	}
}

// grow records that len(x) increased by at least n (n may be 0).
func (fa *Facts) grow(x ast.Expr, n int, st *State) {
	s, ti, ok := fa.Canon(x)
	if !ok {
		fa.killTarget(x, st)
		return
	}
	t := "len(" + s + ")"
	st.close()
	keep := map[[2]string]int{}
	for k, v := range st.c {
		if k[1] == t && k[0] != t {
			keep[k] = v - n // b - len <= v  stays valid, improves by n
		}
	}
	fa.killTarget(x, st)
	st.addTerm(t, &termInfo{deps: ti.deps, hasIndex: ti.hasIndex})
	for k, v := range keep {
		_, ok0 := st.terms[k[0]]
		if k[0] == zeroTerm || ok0 {
			st.c[k] = v
		}
	}
	st.le(zeroTerm, t, -n)
	st.closed = false
}

// minLen returns a lower bound for len(e).
func (fa *Facts) minLen(e ast.Expr, st *State) int {
	e = ast.Unparen(e)
	if k, name := fa.axiomMinLen(e); k > 0 {
		fa.noteAxiom(name)
		return k
	}
	if tv, ok := fa.Info.Types[e]; ok && tv.Value != nil && tv.Value.Kind() == constant.String {
		return len(constant.StringVal(tv.Value))
	}
	switch e := e.(type) {
	case *ast.BinaryExpr:
		if e.Op == token.ADD {
			return fa.minLen(e.X, st) + fa.minLen(e.Y, st)
		}
	case *ast.CallExpr:
		// string(r) for a rune/byte r encodes to at least one byte
		if tv, ok := fa.Info.Types[e.Fun]; ok && tv.IsType() && len(e.Args) == 1 {
			if b, ok := tv.Type.Underlying().(*types.Basic); ok && b.Info()&types.IsString != 0 {
				if at := fa.typeOf(e.Args[0]); at != nil && isInteger(at) {
					return 1
				}
			}
		}
	}
	return 0
}

func (fa *Facts) assignOne(lhs, rhs ast.Expr, st *State) {
	lhs = ast.Unparen(lhs)
	rhs = ast.Unparen(rhs)
	if id, ok := lhs.(*ast.Ident); ok && id.Name == "_" {
		return
	}
	ltype := fa.typeOf(lhs)
	if ltype == nil {
		fa.killTarget(lhs, st)
		return
	}
	switch lt := ltype.Underlying().(type) {
	case *types.Basic:
		switch {
		case lt.Info()&types.IsInteger != 0:
			r, rok := fa.Linearize(rhs)
			l, lok := fa.Linearize(lhs)
			if rok && lok && l.Term != "" {
				if r.Term == l.Term {
					fa.shift(lhs, r.Off, st)
					return
				}
				// does r depend on the target?
				selfDep := false
				if r.ti != nil {
					if _, lti, ok := fa.Canon(lhs); ok {
						for _, d := range lti.deps {
							if _, isLocal := lhs.(*ast.Ident); isLocal && dependsOn(r.ti, d) {
								selfDep = true
							}
						}
					}
				}
				// capture known facts of r before the kill
				fa.killTarget(lhs, st)
				if !selfDep {
					st.addLinLE(l, r, 0)
					st.addLinLE(r, l, 0)
				}
				return
			}
			fa.killTarget(lhs, st)
			if lok && l.Term != "" {
				fa.resultFacts(l, rhs, st)
			}
			return
		case lt.Info()&types.IsString != 0:
			fa.assignLen(lhs, rhs, st)
			return
		case lt.Info()&types.IsBoolean != 0:
			fa.killTarget(lhs, st)
			if id, ok := lhs.(*ast.Ident); ok {
				if tv, ok := fa.Info.Types[rhs]; ok && tv.Value != nil && tv.Value.Kind() == constant.Bool {
					if s, ti, ok := fa.Canon(id); ok {
						st.bools[s] = boolFact{val: constant.BoolVal(tv.Value), info: ti}
					}
				}
			}
			return
		}
	case *types.Slice, *types.Map:
		fa.assignLen(lhs, rhs, st)
		return
	case *types.Pointer, *types.Interface, *types.Signature, *types.Chan:
		fa.killTarget(lhs, st)
		if fa.exprNonNil(rhs, st) {
			if s, ti, ok := fa.Canon(lhs); ok {
				st.nonnil[s] = ti
			}
		}
		return
	}
	fa.killTarget(lhs, st)
}

func (fa *Facts) typeOf(e ast.Expr) types.Type {
	if tv, ok := fa.Info.Types[e]; ok && tv.Type != nil {
		return tv.Type
	}
	if id, ok := e.(*ast.Ident); ok {
		if o := fa.Info.Defs[id]; o != nil {
			return o.Type()
		}
		if o := fa.Info.Uses[id]; o != nil {
			return o.Type()
		}
	}
	return nil
}

func (fa *Facts) exprNonNil(e ast.Expr, st *State) bool {
	switch e := ast.Unparen(e).(type) {
	case *ast.UnaryExpr:
		return e.Op == token.AND
	case *ast.CompositeLit, *ast.FuncLit:
		return true
	case *ast.CallExpr:
		if id, ok := e.Fun.(*ast.Ident); ok {
			if b, ok := fa.Info.Uses[id].(*types.Builtin); ok && (b.Name() == "new" || b.Name() == "make") {
				return true
			}
		}
	default:
		if s, _, ok := fa.Canon(e); ok {
			return st.NonNil(s)
		}
	}
	return false
}

// assignLen handles x = rhs for slices, maps and strings.
func (fa *Facts) assignLen(lhs, rhs ast.Expr, st *State) {
	ls, lti, lok := fa.Canon(lhs)
	if !lok {
		fa.killTarget(lhs, st)
		return
	}
	lt := Lin{Term: "len(" + ls + ")", ti: lti}
	setLen := func(r Lin) {
		fa.killTarget(lhs, st)
		st.addLinLE(lt, r, 0)
		st.addLinLE(r, lt, 0)
	}
	switch r := rhs.(type) {
	case *ast.Ident:
		if r.Name == "nil" {
			if _, ok := fa.Info.Uses[r].(*types.Nil); ok {
				setLen(Lin{})
				return
			}
		}
	case *ast.CompositeLit:
		n := 0
		keyed := false
		for _, el := range r.Elts {
			if _, ok := el.(*ast.KeyValueExpr); ok {
				keyed = true
			}
			n++
		}
		if _, isMap := fa.typeOf(lhs).Underlying().(*types.Map); !keyed || isMap {
			if !keyed {
				setLen(Lin{Off: n})
				return
			}
		}
	case *ast.CallExpr:
		if id, ok := r.Fun.(*ast.Ident); ok {
			if b, ok := fa.Info.Uses[id].(*types.Builtin); ok {
				switch b.Name() {
				case "append":
					if len(r.Args) >= 1 {
						n := len(r.Args) - 1
						if r.Ellipsis.IsValid() {
							n = 0
						}
						if as, _, ok := fa.Canon(r.Args[0]); ok && as == ls {
							fa.grow(lhs, n, st)
							return
						}
						// x = append(y, …): len(x) >= len(y) + n
						if as, ati, ok := fa.Canon(r.Args[0]); ok {
							src := Lin{Term: "len(" + as + ")", ti: ati}
							selfDep := false
							for _, d := range lti.deps {
								if _, isLocal := lhs.(*ast.Ident); isLocal && dependsOn(ati, d) {
									selfDep = true
								}
							}
							fa.killTarget(lhs, st)
							if !selfDep {
								st.addLinLE(src, lt, -n)
							} else {
								st.addLinLE(Lin{}, lt, -n)
							}
							return
						}
						fa.killTarget(lhs, st)
						st.addLinLE(Lin{}, lt, -n)
						return
					}
				case "make":
					if len(r.Args) >= 2 {
						if n, ok := fa.Linearize(r.Args[1]); ok {
							setLen(n)
							return
						}
					}
					if len(r.Args) == 1 {
						setLen(Lin{})
						return
					}
				}
			}
		}
		// string(rune)/string conversions: at least one byte for rune conv
	}
	if tv, ok := fa.Info.Types[rhs]; ok && tv.Value != nil && tv.Value.Kind() == constant.String {
		setLen(Lin{Off: len(constant.StringVal(tv.Value))})
		return
	}
	// x = y (copy of header): same length
	if rs, rti, ok := fa.Canon(rhs); ok {
		if _, isCall := rhs.(*ast.CallExpr); !isCall {
			if _, isSlice := rhs.(*ast.SliceExpr); !isSlice {
				selfDep := false
				for _, d := range lti.deps {
					if dependsOn(rti, d) {
						selfDep = true
					}
				}
				if !selfDep {
					setLen(Lin{Term: "len(" + rs + ")", ti: rti})
					if k, name := fa.axiomMinLen(rhs); k > 0 {
						fa.noteAxiom(name)
						st.addLinLE(Lin{Off: k}, lt, 0)
					}
					return
				}
			}
		}
	}
	// x = y[a:b]
	if se, ok := rhs.(*ast.SliceExpr); ok && se.Max == nil {
		if bs, bti, ok := fa.Canon(se.X); ok {
			base := Lin{Term: "len(" + bs + ")", ti: bti}
			var lo, hi Lin
			lok, hok := true, true
			if se.Low != nil {
				lo, lok = fa.Linearize(se.Low)
			}
			if se.High != nil {
				hi, hok = fa.Linearize(se.High)
			} else {
				hi = base
			}
			if lok && hok {
				// new len = hi - lo; expressible when lo is constant
				if lo.Term == "" {
					n := hi
					n.Off -= lo.Off
					selfDep := false
					if n.ti != nil {
						for _, d := range lti.deps {
							if dependsOn(n.ti, d) {
								selfDep = true
							}
						}
					}
					if !selfDep {
						setLen(n)
						return
					}
					if n.Term == lt.Term {
						// x = x[c:] or x = x[:len(x)-c]: shift by n.Off
						st.close()
						saved := map[[2]string]int{}
						for k, v := range st.c {
							switch {
							case k[0] == lt.Term && k[1] != lt.Term:
								saved[k] = v + n.Off
							case k[1] == lt.Term && k[0] != lt.Term && k[0] != zeroTerm:
								saved[k] = v - n.Off
							}
						}
						fa.killTarget(lhs, st)
						st.addTerm(lt.Term, &termInfo{deps: lti.deps, hasIndex: lti.hasIndex})
						for k, v := range saved {
							_, ok0 := st.terms[k[0]]
							_, ok1 := st.terms[k[1]]
							if (k[0] == zeroTerm || ok0) && (k[1] == zeroTerm || ok1) {
								st.c[k] = v
							}
						}
						st.closed = false
						return
					}
				}
			}
		}
	}
	fa.killTarget(lhs, st)
}

// resultFacts adds facts about x := f(...) for well-known std functions.
func (fa *Facts) resultFacts(x Lin, rhs ast.Expr, st *State) {
	c, ok := ast.Unparen(rhs).(*ast.CallExpr)
	if !ok {
		return
	}
	fo := StaticCallee(fa.Info, c)
	if fo == nil || fo.Pkg() == nil {
		return
	}
	switch fo.Pkg().Path() + "." + fo.Name() {
	case "strings.IndexByte", "strings.IndexRune", "strings.IndexAny", "strings.LastIndexByte", "strings.LastIndexAny", "strings.IndexFunc",
		"bytes.IndexByte", "bytes.IndexRune", "bytes.IndexAny":
		if len(c.Args) >= 1 {
			if s, ti, ok := fa.Canon(c.Args[0]); ok {
				st.addLinLE(Lin{Off: -1}, x, 0)                         // -1 <= x
				st.addLinLE(x, Lin{Term: "len(" + s + ")", ti: ti}, -1) // x <= len-1
			}
		}
	case "strings.Index", "strings.LastIndex", "bytes.Index":
		if len(c.Args) >= 2 {
			if s, ti, ok := fa.Canon(c.Args[0]); ok {
				st.addLinLE(Lin{Off: -1}, x, 0)
				n := fa.minLen(c.Args[1], st)
				st.addLinLE(x, Lin{Term: "len(" + s + ")", ti: ti}, -n) // x + n <= len
			}
		}
	case "unicode/utf8.RuneLen":
		st.addLinLE(Lin{Off: -1}, x, 0)
		st.addLinLE(x, Lin{Off: 4}, 0)
	case "unicode/utf8.RuneCountInString", "unicode/utf8.RuneCount":
		st.addLinLE(Lin{}, x, 0)
		if len(c.Args) >= 1 {
			if s, ti, ok := fa.Canon(c.Args[0]); ok {
				st.addLinLE(x, Lin{Term: "len(" + s + ")", ti: ti}, 0)
			}
		}
	}
}

// multiResult adds facts for r, w := utf8.DecodeRuneInString(s) and
// similar.
func (fa *Facts) multiResult(lhs []ast.Expr, c *ast.CallExpr, st *State) {
	fo := StaticCallee(fa.Info, c)
	if fo == nil || fo.Pkg() == nil {
		return
	}
	switch fo.Pkg().Path() + "." + fo.Name() {
	case "unicode/utf8.DecodeRuneInString", "unicode/utf8.DecodeRune", "unicode/utf8.DecodeLastRuneInString", "unicode/utf8.DecodeLastRune":
		if len(lhs) == 2 && len(c.Args) == 1 {
			w, ok := fa.Linearize(lhs[1])
			if !ok || w.Term == "" {
				return
			}
			st.addLinLE(Lin{}, w, 0)
			st.addLinLE(w, Lin{Off: 4}, 0)
			if s, ti, ok := fa.Canon(c.Args[0]); ok {
				ln := Lin{Term: "len(" + s + ")", ti: ti}
				st.addLinLE(w, ln, 0)
				// non-empty input decodes at least one byte
				if st.ProveLinLE(Lin{Off: 1}, ln, 0) {
					st.addLinLE(Lin{Off: 1}, w, 0)
				}
			}
		}
	}
}

// ---------------------------------------------------------------------------
// Conditions

func (fa *Facts) assume(cond ast.Expr, truth bool, st *State) {
	if st == nil || cond == nil {
		return
	}
	if tv, ok := fa.Info.Types[cond]; ok && tv.Value != nil && tv.Value.Kind() == constant.Bool {
		if constant.BoolVal(tv.Value) != truth {
			st.addLinLE(Lin{Off: 1}, Lin{}, 0) // infeasible edge
		}
		return
	}
	switch e := ast.Unparen(cond).(type) {
	case *ast.UnaryExpr:
		if e.Op == token.NOT {
			fa.assume(e.X, !truth, st)
		}
	case *ast.BinaryExpr:
		switch e.Op {
		case token.LAND:
			if truth {
				fa.assume(e.X, true, st)
				fa.assume(e.Y, true, st)
			} else {
				a, b := st.clone(), st.clone()
				fa.assume(e.X, false, a)
				fa.assume(e.X, true, b)
				fa.assume(e.Y, false, b)
				*st = *joinNonNil(a, b, st)
			}
		case token.LOR:
			if !truth {
				fa.assume(e.X, false, st)
				fa.assume(e.Y, false, st)
			} else {
				a, b := st.clone(), st.clone()
				fa.assume(e.X, true, a)
				fa.assume(e.X, false, b)
				fa.assume(e.Y, true, b)
				*st = *joinNonNil(a, b, st)
			}
		case token.EQL, token.NEQ, token.LSS, token.LEQ, token.GTR, token.GEQ:
			fa.assumeCmp(e.X, e.Op, e.Y, truth, st)
		}
	case *ast.Ident:
		if s, ti, ok := fa.Canon(e); ok {
			if _, isVar := fa.Info.Uses[e].(*types.Var); isVar {
				if bf, known := st.bools[s]; known && bf.val != truth {
					// contradiction
					st.addLinLE(Lin{Off: 1}, Lin{}, 0)
					return
				}
				st.bools[s] = boolFact{val: truth, info: ti}
			}
		}
	case *ast.CallExpr:
		if truth {
			fa.assumePredicate(e, st)
		}
		if fo := StaticCallee(fa.Info, e); fo != nil && fo.Pkg() != nil && truth {
			switch fo.Pkg().Path() + "." + fo.Name() {
			case "strings.HasPrefix", "strings.HasSuffix", "bytes.HasPrefix", "bytes.HasSuffix":
				if len(e.Args) == 2 {
					if s, ti, ok := fa.Canon(e.Args[0]); ok {
						n := fa.minLen(e.Args[1], st)
						st.addLinLE(Lin{Off: n}, Lin{Term: "len(" + s + ")", ti: ti}, 0)
					}
				}
			}
		}
	}
}

// assumePredicate handles `if x.pred(…)` where pred is a method of the
// repository whose body is `return A && B && …`: the conjuncts that say the
// receiver's slice field is non-empty (len(r.f) != 0, > 0, >= 1) hold for the
// caller's receiver expression on the true edge.  (A predicate such as
// `top(tok)` that tests the stack before looking at its top.)
func (fa *Facts) assumePredicate(call *ast.CallExpr, st *State) {
	p := CurrentProgram
	if p == nil {
		return
	}
	fo := StaticCallee(fa.Info, call)
	if fo == nil {
		return
	}
	h := p.FuncOf(fo)
	if h == nil || h.Decl == nil || h.Body == nil || len(h.Body.List) != 1 || h.Decl.Recv == nil || len(h.Decl.Recv.List) != 1 || len(h.Decl.Recv.List[0].Names) != 1 {
		return
	}
	ret, ok := h.Body.List[0].(*ast.ReturnStmt)
	if !ok || len(ret.Results) != 1 {
		return
	}
	sel, ok := call.Fun.(*ast.SelectorExpr)
	if !ok {
		return
	}
	recvS, recvTi, ok := fa.Canon(sel.X)
	if !ok {
		return
	}
	hi := h.Info()
	recvObj := hi.Defs[h.Decl.Recv.List[0].Names[0]]
	var conj func(e ast.Expr)
	conj = func(e ast.Expr) {
		e = ast.Unparen(e)
		be, ok := e.(*ast.BinaryExpr)
		if !ok {
			return
		}
		if be.Op == token.LAND {
			conj(be.X)
			conj(be.Y)
			return
		}
		// len(r.f) != 0 | len(r.f) > 0 | len(r.f) >= 1 | 0 < len(r.f) | 0 != len(r.f)
		lenOf := func(x ast.Expr) *types.Var {
			c, ok := ast.Unparen(x).(*ast.CallExpr)
			if !ok || len(c.Args) != 1 {
				return nil
			}
			if id, ok := c.Fun.(*ast.Ident); !ok || id.Name != "len" {
				return nil
			}
			se, ok := ast.Unparen(c.Args[0]).(*ast.SelectorExpr)
			if !ok {
				return nil
			}
			id, ok := ast.Unparen(se.X).(*ast.Ident)
			if !ok || hi.Uses[id] != recvObj || recvObj == nil {
				return nil
			}
			return FieldOf(hi, se)
		}
		constOf := func(x ast.Expr) (int64, bool) {
			if tv, ok := hi.Types[x]; ok && tv.Value != nil && tv.Value.Kind() == constant.Int {
				v, ok := constant.Int64Val(tv.Value)
				return v, ok
			}
			return 0, false
		}
		var fld *types.Var
		nonEmpty := false
		if f := lenOf(be.X); f != nil {
			if k, ok := constOf(be.Y); ok {
				fld = f
				nonEmpty = (be.Op == token.NEQ && k == 0) || (be.Op == token.GTR && k == 0) || (be.Op == token.GEQ && k == 1)
			}
		} else if f := lenOf(be.Y); f != nil {
			if k, ok := constOf(be.X); ok {
				fld = f
				nonEmpty = (be.Op == token.NEQ && k == 0) || (be.Op == token.LSS && k == 0) || (be.Op == token.LEQ && k == 1)
			}
		}
		if fld != nil && nonEmpty {
			ti := &termInfo{deps: append(append([]*types.Var{}, recvTi.deps...), fld), hasIndex: recvTi.hasIndex}
			st.addLinLE(Lin{Off: 1}, Lin{Term: "len(" + recvS + "." + fld.Name() + ")", ti: ti}, 0)
		}
	}
	conj(ret.Results[0])
}

func joinNonNil(a, b, fallback *State) *State {
	aok, bok := a.close(), b.close()
	switch {
	case aok && bok:
		return join(a, b)
	case aok:
		return a
	case bok:
		return b
	}
	// both infeasible: mark fallback infeasible
	fallback.addLinLE(Lin{Off: 1}, Lin{}, 0)
	return fallback
}

func negate(op token.Token) token.Token {
	switch op {
	case token.EQL:
		return token.NEQ
	case token.NEQ:
		return token.EQL
	case token.LSS:
		return token.GEQ
	case token.LEQ:
		return token.GTR
	case token.GTR:
		return token.LEQ
	case token.GEQ:
		return token.LSS
	}
	return op
}

func (fa *Facts) isNil(e ast.Expr) bool {
	if id, ok := ast.Unparen(e).(*ast.Ident); ok {
		_, isNil := fa.Info.Uses[id].(*types.Nil)
		return isNil
	}
	return false
}

func (fa *Facts) assumeCmp(x ast.Expr, op token.Token, y ast.Expr, truth bool, st *State) {
	if !truth {
		op = negate(op)
	}
	// nil comparisons
	if fa.isNil(y) || fa.isNil(x) {
		other := x
		if fa.isNil(x) {
			other = y
		}
		s, ti, ok := fa.Canon(other)
		if !ok {
			return
		}
		switch op {
		case token.NEQ:
			st.nonnil[s] = ti
			// a non-nil slice may still be empty: no length fact
		case token.EQL:
			delete(st.nonnil, s)
			if t := fa.typeOf(other); t != nil {
				switch t.Underlying().(type) {
				case *types.Slice, *types.Map:
					l := Lin{Term: "len(" + s + ")", ti: ti}
					st.addLinLE(l, Lin{}, 0)
				}
			}
		}
		return
	}
	// string comparisons with constants
	if tx := fa.typeOf(x); tx != nil {
		if b, ok := tx.Underlying().(*types.Basic); ok && b.Info()&types.IsString != 0 {
			cv, other := fa.constString(y), x
			if cv == nil {
				cv, other = fa.constString(x), y
			}
			if cv != nil {
				if s, ti, ok := fa.Canon(other); ok {
					l := Lin{Term: "len(" + s + ")", ti: ti}
					n := len(*cv)
					switch op {
					case token.EQL:
						st.addLinLE(l, Lin{Off: n}, 0)
						st.addLinLE(Lin{Off: n}, l, 0)
					case token.NEQ:
						if n == 0 {
							st.addLinLE(Lin{Off: 1}, l, 0)
						}
					}
				}
			}
			return
		}
	}
	a, aok := fa.Linearize(x)
	b, bok := fa.Linearize(y)
	if !aok || !bok {
		return
	}
	switch op {
	case token.LSS:
		st.addLinLE(a, b, -1)
	case token.LEQ:
		st.addLinLE(a, b, 0)
	case token.GTR:
		st.addLinLE(b, a, -1)
	case token.GEQ:
		st.addLinLE(b, a, 0)
	case token.EQL:
		st.addLinLE(a, b, 0)
		st.addLinLE(b, a, 0)
	case token.NEQ:
		st.reg(a)
		st.reg(b)
		if st.ProveLinLE(b, a, 0) { // a >= b and a != b  =>  a >= b+1
			st.addLinLE(b, a, -1)
		} else if st.ProveLinLE(a, b, 0) {
			st.addLinLE(a, b, -1)
		}
	}
}

func (fa *Facts) constString(e ast.Expr) *string {
	if tv, ok := fa.Info.Types[e]; ok && tv.Value != nil && tv.Value.Kind() == constant.String {
		s := constant.StringVal(tv.Value)
		return &s
	}
	return nil
}

func (fa *Facts) assumeRange(rs *ast.RangeStmt, st *State) {
	fa.killTarget(rs.Key, st)
	fa.killTarget(rs.Value, st)
	if rs.Key == nil {
		return
	}
	kid, ok := rs.Key.(*ast.Ident)
	if !ok || kid.Name == "_" {
		return
	}
	t := fa.typeOf(rs.X)
	if t == nil {
		return
	}
	switch u := t.Underlying().(type) {
	case *types.Slice, *types.Array, *types.Basic, *types.Pointer:
		if b, ok := u.(*types.Basic); ok && b.Info()&types.IsString == 0 {
			return
		}
		k, ok := fa.Linearize(kid)
		if !ok || k.Term == "" {
			return
		}
		st.addLinLE(Lin{}, k, 0)
		if ln, ok, _ := fa.seqLen(rs.X); ok && ln.Term == "" {
			st.addLinLE(k, ln, -1)
		} else if s, ti, ok := fa.Canon(rs.X); ok && fa.loopStable(rs, ti) {
			if _, isCall := ast.Unparen(rs.X).(*ast.CallExpr); !isCall {
				st.addLinLE(k, Lin{Term: "len(" + s + ")", ti: ti}, -1)
			}
		}
	}
}

// loopStable reports whether the ranged-over operand cannot be reassigned
// inside the loop body (the range evaluates it once).
func (fa *Facts) loopStable(rs *ast.RangeStmt, ti *termInfo) bool {
	stable := true
	ast.Inspect(rs.Body, func(n ast.Node) bool {
		if !stable {
			return false
		}
		check := func(e ast.Expr) {
			switch e := ast.Unparen(e).(type) {
			case *ast.Ident:
				obj := fa.Info.Uses[e]
				if obj == nil {
					obj = fa.Info.Defs[e]
				}
				if v, ok := obj.(*types.Var); ok && dependsOn(ti, v) {
					stable = false
				}
			case *ast.SelectorExpr:
				if v := FieldOf(fa.Info, e); v != nil && dependsOn(ti, v) {
					stable = false
				}
			}
		}
		switch n := n.(type) {
		case *ast.AssignStmt:
			for _, l := range n.Lhs {
				check(l)
			}
		case *ast.IncDecStmt:
			check(n.X)
		case *ast.CallExpr:
			if fa.cg != nil {
				for v := range fa.cg.CallMod(fa.F, n) {
					if dependsOn(ti, v) {
						stable = false
					}
				}
			}
		}
		return true
	})
	return stable
}

func succIdx(b *cfg.Block) []int32 {
	var out []int32
	for _, s := range b.Succs {
		out = append(out, s.Index)
	}
	return out
}
