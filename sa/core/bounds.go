package core

import (
	"fmt"
	"go/ast"
	"go/constant"
	"go/types"
)

// BoundsResult is the verdict of the guard engine on one obligation.
type BoundsResult struct {
	OK      bool
	Trivial bool   // constant bound
	Why     string // what was proved, or which fact is missing
	Inv     string // named invariant the proof relied on, if any
}

func (fa *Facts) noteAxiom(name string) {
	if fa.UsedAxioms == nil {
		fa.UsedAxioms = map[string]bool{}
	}
	fa.UsedAxioms[name] = true
}

// seqLen returns a linear form for the length of x (constant for arrays).
func (fa *Facts) seqLen(x ast.Expr) (Lin, bool, bool) {
	t := fa.typeOf(x)
	if t == nil {
		return Lin{}, false, false
	}
	u := t.Underlying()
	if p, ok := u.(*types.Pointer); ok {
		u = p.Elem().Underlying()
	}
	switch u := u.(type) {
	case *types.Array:
		return Lin{Off: int(u.Len())}, true, true
	case *types.Slice:
	case *types.Basic:
		if u.Info()&types.IsString == 0 {
			return Lin{}, false, false
		}
		if tv, ok := fa.Info.Types[x]; ok && tv.Value != nil && tv.Value.Kind() == constant.String {
			return Lin{Off: len(constant.StringVal(tv.Value))}, true, true
		}
	default:
		return Lin{}, false, false
	}
	s, ti, ok := fa.Canon(x)
	if !ok {
		return Lin{}, false, true
	}
	return Lin{Term: "len(" + s + ")", ti: ti}, true, true
}

// IsSeq reports whether indexing x can fail with an out-of-range panic.
func (fa *Facts) IsSeq(x ast.Expr) bool {
	_, _, seq := fa.seqLen(x)
	return seq
}

// CheckIndex decides 0 <= i < len(x).
func (fa *Facts) CheckIndex(e *ast.IndexExpr, st *State) BoundsResult {
	if st == nil {
		return BoundsResult{OK: true, Trivial: true, Why: "unreachable"}
	}
	ln, lok, _ := fa.seqLen(e.X)
	idx, iok := fa.Linearize(e.Index)
	if !iok {
		return BoundsResult{Why: fmt.Sprintf("index %s is not a linear integer form", types.ExprString(e.Index))}
	}
	if !lok {
		return BoundsResult{Why: fmt.Sprintf("operand %s has no canonical length", types.ExprString(e.X))}
	}
	lo := st.ProveLinLE(Lin{}, idx, 0)
	hi := st.ProveLinLE(idx, ln, -1)
	if lo && hi {
		return BoundsResult{OK: true, Trivial: idx.Term == "" && ln.Term == "", Why: fmt.Sprintf("0 <= %s < %s", StripPos(idx.String()), StripPos(ln.String()))}
	}
	if st2, name := fa.withAxiom(e.X, st); name != "" {
		if st2.ProveLinLE(Lin{}, idx, 0) && st2.ProveLinLE(idx, ln, -1) {
			fa.noteAxiom(name)
			return BoundsResult{OK: true, Inv: name, Why: fmt.Sprintf("0 <= %s < %s given invariant %s", StripPos(idx.String()), StripPos(ln.String()), name)}
		}
	}
	miss := ""
	if !lo {
		miss = fmt.Sprintf("0 <= %s", StripPos(idx.String()))
	}
	if !hi {
		if miss != "" {
			miss += " and "
		}
		miss += fmt.Sprintf("%s < %s", StripPos(idx.String()), StripPos(ln.String()))
	}
	return BoundsResult{Why: "not established on every path: " + miss + "; known: {" + st.Dump(idx.Term, ln.Term) + "}"}
}

// CheckSlice decides 0 <= lo <= hi <= len(x) for x[lo:hi].
func (fa *Facts) CheckSlice(e *ast.SliceExpr, st *State) BoundsResult {
	if st == nil {
		return BoundsResult{OK: true, Trivial: true, Why: "unreachable"}
	}
	ln, lok, _ := fa.seqLen(e.X)
	if !lok {
		return BoundsResult{Why: fmt.Sprintf("operand %s has no canonical length", types.ExprString(e.X))}
	}
	var lo, hi Lin
	ok := true
	if e.Low != nil {
		lo, ok = fa.Linearize(e.Low)
		if !ok {
			return BoundsResult{Why: fmt.Sprintf("bound %s is not a linear integer form", types.ExprString(e.Low))}
		}
	}
	if e.High != nil {
		hi, ok = fa.Linearize(e.High)
		if !ok {
			return BoundsResult{Why: fmt.Sprintf("bound %s is not a linear integer form", types.ExprString(e.High))}
		}
	} else {
		hi = ln
	}
	if e.Max != nil {
		return BoundsResult{Why: "three-index slice not modelled"}
	}
	var miss []string
	if !st.ProveLinLE(Lin{}, lo, 0) {
		miss = append(miss, fmt.Sprintf("0 <= %s", StripPos(lo.String())))
	}
	if !st.ProveLinLE(lo, hi, 0) {
		miss = append(miss, fmt.Sprintf("%s <= %s", StripPos(lo.String()), StripPos(hi.String())))
	}
	if e.High != nil && !st.ProveLinLE(hi, ln, 0) {
		miss = append(miss, fmt.Sprintf("%s <= %s", StripPos(hi.String()), StripPos(ln.String())))
	}
	if len(miss) == 0 {
		return BoundsResult{OK: true, Trivial: lo.Term == "" && hi.Term == "" && ln.Term == "",
			Why: fmt.Sprintf("0 <= %s <= %s <= %s", StripPos(lo.String()), StripPos(hi.String()), StripPos(ln.String()))}
	}
	if st2, name := fa.withAxiom(e.X, st); name != "" {
		if st2.ProveLinLE(Lin{}, lo, 0) && st2.ProveLinLE(lo, hi, 0) && (e.High == nil || st2.ProveLinLE(hi, ln, 0)) {
			fa.noteAxiom(name)
			return BoundsResult{OK: true, Inv: name, Why: fmt.Sprintf("0 <= %s <= %s <= %s given invariant %s", StripPos(lo.String()), StripPos(hi.String()), StripPos(ln.String()), name)}
		}
	}
	s := "not established on every path: "
	for i, m := range miss {
		if i > 0 {
			s += " and "
		}
		s += m
	}
	return BoundsResult{Why: s + "; known: {" + st.Dump(lo.Term, hi.Term, ln.Term) + "}"}
}

// CheckNonNil decides x != nil for a dereference.
func (fa *Facts) CheckNonNil(x ast.Expr, st *State) BoundsResult {
	if st == nil {
		return BoundsResult{OK: true, Trivial: true, Why: "unreachable"}
	}
	s, _, ok := fa.Canon(x)
	if !ok {
		return BoundsResult{Why: "operand has no canonical path"}
	}
	if st.NonNil(s) {
		return BoundsResult{OK: true, Why: StripPos(s) + " != nil on every path"}
	}
	return BoundsResult{Why: StripPos(s) + " != nil is not established on every path"}
}

// BoolKnown returns the known truth value of a boolean local.
func (fa *Facts) BoolKnown(e ast.Expr, st *State) (val, known bool) {
	if st == nil {
		return false, false
	}
	s, _, ok := fa.Canon(e)
	if !ok {
		return false, false
	}
	bf, ok := st.bools[s]
	return bf.val, ok
}

// ProveMinLen reports whether len(e) >= k holds in st (directly, through a
// constant, or through a named invariant).
func (fa *Facts) ProveMinLen(e ast.Expr, st *State, k int) (bool, string) {
	if st == nil {
		return true, "unreachable"
	}
	e = ast.Unparen(e)
	if fa.minLen(e, st) >= k {
		return true, "constant or invariant length"
	}
	ln, ok, _ := fa.seqLen(e)
	if !ok {
		return false, ""
	}
	if st.ProveLinLE(Lin{Off: k}, ln, 0) {
		return true, fmt.Sprintf("%d <= %s", k, StripPos(ln.String()))
	}
	if st2, name := fa.withAxiom(e, st); name != "" && st2.ProveLinLE(Lin{Off: k}, ln, 0) {
		fa.noteAxiom(name)
		return true, "invariant " + name
	}
	return false, ""
}
