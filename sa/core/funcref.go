package core

import (
	_ "embed"
	"encoding/json"
	"go/ast"
	"go/scanner"
	"go/token"
	"go/types"
	"hash/fnv"
	"os"
	"sort"
	"strings"
)

// Function-name canonicalisation.  Rules name their anchors by the names the
// functions have in the reference tree.  When an unexported function has been
// renamed (a behaviour-preserving edit), the loader maps it back to its
// reference name by comparing identifier-free token sketches of the bodies.
// The match only locates anchors; it never decides a property.

//go:embed funcref.json
var funcRefJSON []byte

type FuncRef struct {
	Name   string   `json:"name"` // pkg.Short
	Pkg    string   `json:"pkg"`
	Recv   string   `json:"recv"`
	Sig    string   `json:"sig"`
	Sketch []uint32 `json:"sketch"`
}

func loadFuncRefs() []FuncRef {
	var out []FuncRef
	json.Unmarshal(funcRefJSON, &out)
	return out
}

// sketchOf computes the bottom-k sketch of 4-token shingles of a function
// body with identifiers erased.
func sketchOf(fset *token.FileSet, body *ast.BlockStmt, src []byte) []uint32 {
	start := fset.Position(body.Pos()).Offset
	end := fset.Position(body.End()).Offset
	if start < 0 || end > len(src) || start >= end {
		return nil
	}
	fs := token.NewFileSet()
	file := fs.AddFile("", fs.Base(), end-start)
	var s scanner.Scanner
	s.Init(file, src[start:end], nil, 0)
	var toks []string
	for {
		_, tok, lit := s.Scan()
		if tok == token.EOF {
			break
		}
		switch {
		case tok == token.IDENT:
			toks = append(toks, "I")
		case tok.IsLiteral():
			toks = append(toks, lit)
		case tok == token.SEMICOLON:
		default:
			toks = append(toks, tok.String())
		}
	}
	set := map[uint32]bool{}
	for i := 0; i+4 <= len(toks); i++ {
		h := fnv.New32a()
		h.Write([]byte(strings.Join(toks[i:i+4], "\x00")))
		set[h.Sum32()] = true
	}
	if len(toks) < 4 {
		h := fnv.New32a()
		h.Write([]byte(strings.Join(toks, "\x00")))
		set[h.Sum32()] = true
	}
	var out []uint32
	for h := range set {
		out = append(out, h)
	}
	sort.Slice(out, func(i, j int) bool { return out[i] < out[j] })
	if len(out) > 96 {
		out = out[:96]
	}
	return out
}

func similarity(a, b []uint32) float64 {
	if len(a) == 0 || len(b) == 0 {
		return 0
	}
	in := map[uint32]bool{}
	for _, x := range a {
		in[x] = true
	}
	n := 0
	for _, x := range b {
		if in[x] {
			n++
		}
	}
	return float64(n) / float64(len(a)+len(b)-n)
}

func sigString(f *Func) string {
	if f.Obj == nil {
		return ""
	}
	sig := f.Obj.Type().(*types.Signature)
	q := func(p *types.Package) string { return p.Name() }
	var ps, rs []string
	for i := 0; i < sig.Params().Len(); i++ {
		ps = append(ps, types.TypeString(sig.Params().At(i).Type(), q))
	}
	for i := 0; i < sig.Results().Len(); i++ {
		rs = append(rs, types.TypeString(sig.Results().At(i).Type(), q))
	}
	return "(" + strings.Join(ps, ",") + ")(" + strings.Join(rs, ",") + ")"
}

func recvOf(f *Func) string {
	if i := strings.LastIndex(f.Short, "."); i >= 0 {
		return f.Short[:i]
	}
	return ""
}

// GenFuncRefs builds the reference table from the program (tooling).
func (p *Program) GenFuncRefs() []FuncRef {
	var out []FuncRef
	src := map[string][]byte{}
	for _, f := range p.Funcs {
		if f.Decl == nil || f.Generated {
			continue
		}
		fn := p.Fset.Position(f.Pos()).Filename
		if src[fn] == nil {
			src[fn], _ = os.ReadFile(fn)
		}
		out = append(out, FuncRef{Name: f.Name, Pkg: f.Pkg.Name, Recv: recvOf(f), Sig: sigString(f), Sketch: sketchOf(p.Fset, f.Body, src[fn])})
	}
	sort.Slice(out, func(i, j int) bool { return out[i].Name < out[j].Name })
	return out
}

// canonicaliseNames maps renamed functions back to their reference names.
// It must run after the declared functions are collected and before
// literals are named.
func (p *Program) canonicaliseNames() {
	refs := loadFuncRefs()
	if len(refs) == 0 {
		return
	}
	refByName := map[string]FuncRef{}
	for _, r := range refs {
		refByName[r.Name] = r
	}
	cur := map[string]*Func{}
	for _, f := range p.Funcs {
		if f.Decl != nil {
			cur[f.Name] = f
		}
	}
	var missing []FuncRef
	for _, r := range refs {
		if cur[r.Name] == nil && p.Pkgs[r.Pkg] != nil {
			missing = append(missing, r)
		}
	}
	if len(missing) == 0 {
		return
	}
	src := map[string][]byte{}
	type cand struct {
		f      *Func
		sketch []uint32
		sig    string
	}
	var fresh []cand
	for _, f := range p.Funcs {
		if f.Decl == nil || f.Generated {
			continue
		}
		if _, known := refByName[f.Name]; known {
			continue
		}
		fn := p.Fset.Position(f.Pos()).Filename
		if src[fn] == nil {
			src[fn], _ = os.ReadFile(fn)
		}
		fresh = append(fresh, cand{f, sketchOf(p.Fset, f.Body, src[fn]), sigString(f)})
	}
	type pair struct {
		r     FuncRef
		c     int
		score float64
	}
	var pairs []pair
	for _, r := range missing {
		for i, c := range fresh {
			if c.f.Pkg.Name != r.Pkg {
				continue
			}
			// a method that did not need its receiver turned into a function
			// of the same name and signature, or the reverse
			moved := (recvOf(c.f) == "") != (r.Recv == "") && baseName(c.f.Short) == baseName(strings.TrimPrefix(r.Name, r.Pkg+".")) && c.sig == r.Sig
			// the receiver must agree unless the receiver type itself is gone
			if !moved && recvOf(c.f) != r.Recv && r.Recv != "" && p.typeExists(r.Pkg, strings.Trim(r.Recv, "(*)")) {
				continue
			}
			s := similarity(r.Sketch, c.sketch)
			if c.sig == r.Sig {
				s += 0.25
			}
			if moved && s < 0.6 {
				s = 0.6
			}
			if s >= 0.55 {
				pairs = append(pairs, pair{r, i, s})
			}
		}
	}
	sort.Slice(pairs, func(i, j int) bool { return pairs[i].score > pairs[j].score })
	usedR, usedC := map[string]bool{}, map[int]bool{}
	for _, pr := range pairs {
		if usedR[pr.r.Name] || usedC[pr.c] {
			continue
		}
		usedR[pr.r.Name], usedC[pr.c] = true, true
		f := fresh[pr.c].f
		p.Renamed = append(p.Renamed, f.Name+" -> "+pr.r.Name)
		delete(p.byName, f.Name)
		f.Actual = f.Name
		f.Name = pr.r.Name
		f.Short = strings.TrimPrefix(pr.r.Name, pr.r.Pkg+".")
		p.byName[f.Name] = f
	}
}

func baseName(short string) string {
	if i := strings.LastIndex(short, "."); i >= 0 {
		return short[i+1:]
	}
	return short
}

func (p *Program) typeExists(pkg, name string) bool {
	pk := p.Pkgs[pkg]
	return pk != nil && pk.Types.Scope().Lookup(name) != nil
}

// CanonFuncName returns the reference-tree name parts of a repository
// function object (after renames have been mapped back), or "" if unknown.
func (p *Program) CanonFuncName(fo *types.Func) string {
	if f := p.FuncOf(fo); f != nil {
		return f.Name
	}
	return ""
}
