// Command renamer produces a behaviour-preserving variant of a go.sh tree by
// renaming identifiers (used only to test that the checker does not depend on
// names).  usage: renamer -dir <tree> [-funcs] [-locals]
package main

import (
	"flag"
	"fmt"
	"go/ast"
	"go/token"
	"go/types"
	"os"
	"path/filepath"
	"regexp"
	"sort"
	"strings"

	"golang.org/x/tools/go/packages"
)

type edit struct {
	off, n int
	text   string
}

func main() {
	dir := flag.String("dir", "", "tree to rewrite in place")
	funcs := flag.Bool("funcs", false, "rename unexported functions and methods")
	locals := flag.Bool("locals", false, "rename locals, parameters and receivers in hand-written files")
	fields := flag.Bool("fields", false, "rename unexported struct fields declared in hand-written files")
	typesF := flag.Bool("types", false, "rename unexported types, package-level variables and constants declared in hand-written files")
	flag.Parse()
	fset := token.NewFileSet()
	cfg := &packages.Config{Mode: packages.LoadSyntax, Dir: *dir, Fset: fset, Tests: true,
		Env: append(os.Environ(), "GOFLAGS=-mod=mod", "GOPROXY=off", "GOWORK=off")}
	pkgs, err := packages.Load(cfg, "./...")
	if err != nil {
		panic(err)
	}
	edits := map[string][]edit{}
	renamedFuncs := map[string]string{}
	renamedFields := map[string]string{}
	renamedGlobals := map[string]string{}
	yaccWords := map[string]bool{"token": true, "word": true, "type": true, "left": true, "right": true, "union": true, "start": true, "nonassoc": true, "prec": true, "error": true}
	seenFile := map[string]bool{}
	generated := func(fn string) bool {
		b := filepath.Base(fn)
		return b == "parser.go" || b == "arith.go"
	}
	keep := map[string]bool{"main": true, "init": true}
	protected := map[string]bool{}
	target := func(obj types.Object, fn string) (string, bool) {
		if obj == nil || obj.Pkg() == nil || !strings.HasPrefix(obj.Pkg().Path(), "github.com/hattya/go.sh") {
			return "", false
		}
		switch o := obj.(type) {
		case *types.Func:
			if !*funcs || o.Exported() || keep[o.Name()] || strings.HasPrefix(o.Name(), "yy") {
				return "", false
			}
			// methods that satisfy unexported interface methods are renamed consistently (same name everywhere)
			return o.Name() + "R", true
		case *types.TypeName, *types.Const:
			if !*typesF || o.Exported() || o.Parent() != o.Pkg().Scope() || strings.HasPrefix(o.Name(), "yy") || yaccWords[o.Name()] || len(o.Name()) < 3 {
				return "", false
			}
			pos := fset.Position(o.Pos())
			if generated(pos.Filename) || strings.HasSuffix(pos.Filename, ".y") {
				return "", false
			}
			return o.Name() + "T", true
		case *types.Var:
			if !o.IsField() && o.Parent() == o.Pkg().Scope() {
				if !*typesF || o.Exported() || strings.HasPrefix(o.Name(), "yy") || yaccWords[o.Name()] || len(o.Name()) < 3 {
					return "", false
				}
				pos := fset.Position(o.Pos())
				if generated(pos.Filename) || strings.HasSuffix(pos.Filename, ".y") {
					return "", false
				}
				return o.Name() + "T", true
			}
			if o.IsField() {
				if !*fields || o.Exported() || o.Name() == "_" || o.Embedded() || strings.HasPrefix(o.Name(), "yy") || protected[o.Name()] {
					return "", false
				}
				pos := fset.Position(o.Pos())
				if generated(pos.Filename) || strings.HasSuffix(pos.Filename, ".y") {
					return "", false
				}
				return o.Name() + "F", true
			}
			if !*locals || o.Name() == "_" {
				return "", false
			}
			if o.Parent() == o.Pkg().Scope() {
				return "", false
			}
			pos := fset.Position(o.Pos())
			if generated(pos.Filename) || strings.HasPrefix(o.Name(), "yy") {
				return "", false
			}
			return o.Name() + "_r", true
		}
		return "", false
	}
	// field names of structs declared in generated files are referred to in the
	// grammar actions; a textual rename in the .y file cannot tell them apart
	// from equally named fields elsewhere, so those names are left alone
	for _, pk := range pkgs {
		for id, obj := range pk.TypesInfo.Defs {
			if v, ok := obj.(*types.Var); ok && v.IsField() && generated(fset.Position(id.Pos()).Filename) {
				protected[v.Name()] = true
			}
		}
	}
	for _, pk := range pkgs {
		if len(pk.Errors) > 0 {
			panic(pk.Errors[0])
		}
		for _, f := range pk.Syntax {
			fn := fset.Position(f.Pos()).Filename
			if seenFile[fn] {
				continue
			}
			seenFile[fn] = true
			ast.Inspect(f, func(n ast.Node) bool {
				if ts, isTS := n.(*ast.TypeSwitchStmt); isTS && *locals && !generated(fn) {
					if as, ok := ts.Assign.(*ast.AssignStmt); ok && len(as.Lhs) == 1 {
						if id, ok := as.Lhs[0].(*ast.Ident); ok && id.Name != "_" {
							p := fset.Position(id.Pos())
							edits[fn] = append(edits[fn], edit{p.Offset, len(id.Name), id.Name + "_r"})
						}
					}
				}
				id, ok := n.(*ast.Ident)
				if !ok {
					return true
				}
				obj := pk.TypesInfo.Defs[id]
				if obj == nil {
					obj = pk.TypesInfo.Uses[id]
				}
				if nw, ok := target(obj, fn); ok {
					p := fset.Position(id.Pos())
					edits[fn] = append(edits[fn], edit{p.Offset, len(id.Name), nw})
					if _, isF := obj.(*types.Func); isF {
						renamedFuncs[id.Name] = nw
					}
					if v, isV := obj.(*types.Var); isV && v.IsField() {
						renamedFields[id.Name] = nw
					} else if _, isF := obj.(*types.Func); !isF && obj.Parent() == obj.Pkg().Scope() {
						renamedGlobals[id.Name] = nw
					}
				}
				return true
			})
			// implicit objects of type switches (x := y.(type)) are not in Defs per clause; handled by Defs of the assign ident? they are in Implicits
			for node, obj := range pk.TypesInfo.Implicits {
				if cc, ok := node.(*ast.CaseClause); ok && fset.Position(cc.Pos()).Filename == fn {
					_ = obj
				}
			}
		}
	}
	n := 0
	for fn, es := range edits {
		b, err := os.ReadFile(fn)
		if err != nil {
			panic(err)
		}
		sort.Slice(es, func(i, j int) bool { return es[i].off > es[j].off })
		last := -1
		for _, e := range es {
			if e.off == last {
				continue
			}
			last = e.off
			b = append(b[:e.off], append([]byte(e.text), b[e.off+e.n:]...)...)
			n++
		}
		os.WriteFile(fn, b, 0o644)
	}
	// grammar files: rename field references textually (selectors and composite-literal keys)
	if *fields {
		ys, _ := filepath.Glob(filepath.Join(*dir, "*", "*.y"))
		for _, y := range ys {
			b, _ := os.ReadFile(y)
			s := string(b)
			for old, nw := range renamedFields {
				re := regexp.MustCompile(`\.` + regexp.QuoteMeta(old) + `([^A-Za-z0-9_(])`)
				s = re.ReplaceAllString(s, "."+nw+"${1}")
				re3 := regexp.MustCompile(`\.` + regexp.QuoteMeta(old) + `\.`)
				s = re3.ReplaceAllString(s, "."+nw+".")
			}
			os.WriteFile(y, []byte(s), 0o644)
		}
	}
	if *typesF {
		ys, _ := filepath.Glob(filepath.Join(*dir, "*", "*.y"))
		for _, y := range ys {
			b, _ := os.ReadFile(y)
			s := string(b)
			for old, nw := range renamedGlobals {
				re := regexp.MustCompile(`([^A-Za-z0-9_."'%<])` + regexp.QuoteMeta(old) + `([^A-Za-z0-9_"'>])`)
				s = re.ReplaceAllString(s, "${1}"+nw+"${2}")
			}
			os.WriteFile(y, []byte(s), 0o644)
		}
	}
	// grammar files: rename function references textually
	if *funcs {
		ys, _ := filepath.Glob(filepath.Join(*dir, "*", "*.y"))
		for _, y := range ys {
			b, _ := os.ReadFile(y)
			s := string(b)
			for old, nw := range renamedFuncs {
				re := regexp.MustCompile(`([^A-Za-z0-9_"'])` + regexp.QuoteMeta(old) + `\(`)
				s = re.ReplaceAllString(s, "${1}"+nw+"(")
				re2 := regexp.MustCompile(`\.` + regexp.QuoteMeta(old) + `\(`)
				s = re2.ReplaceAllString(s, "."+nw+"(")
			}
			os.WriteFile(y, []byte(s), 0o644)
		}
	}
	fmt.Printf("%d identifiers rewritten, %d functions renamed\n", n, len(renamedFuncs))
}
