// Command sacheck decides the static rules of one go.sh property.
package main

import (
	"encoding/json"
	"flag"
	"fmt"
	"os"
	"path/filepath"
	"strconv"
	"time"

	"verif/sa/core"
	"verif/sa/rules"
)

func main() {
	prop := flag.String("prop", "", "property id")
	tier := flag.String("tier", "quick", "quick|thorough")
	repo := flag.String("repo", "/repo", "repository root")
	verif := flag.String("verif", "/verif", "verification root")
	out := flag.String("out", "", "evidence file (default <verif>/evidence/<prop>.json)")
	verbose := flag.Bool("v", false, "print every obligation")
	only := flag.String("only", "", "print only obligations whose key contains this string")
	genRef := flag.Bool("gen-funcref", false, "print the function reference table for core/funcref.json (tooling)")
	genObj := flag.Bool("gen-objref", false, "print the object reference table for core/objref.json (tooling)")
	dumpPF := flag.Bool("dump-pf1", false, "print every PF1 site as func|kind|raw|normalised (tooling)")
	flag.Parse()
	if *genObj {
		p, err := core.Load(*repo, "", "")
		if err != nil {
			panic(err)
		}
		all := p.GenObjRefs()
		type k struct{ a, b, c string }
		have := map[k]bool{}
		for _, r := range all {
			have[k{r.Pkg, r.Owner, r.Name}] = true
		}
		if pw, err := core.Load(*repo, "windows", ""); err == nil {
			for _, r := range pw.GenObjRefs() {
				if !have[k{r.Pkg, r.Owner, r.Name}] {
					all = append(all, r)
				}
			}
		}
		b, _ := json.MarshalIndent(all, "", " ")
		os.Stdout.Write(b)
		return
	}
	if *genRef {
		p, err := core.Load(*repo, "", "")
		if err != nil {
			panic(err)
		}
		all := p.GenFuncRefs()
		pw, _ := core.Load(*repo, "windows", "")
		have := map[string]bool{}
		for _, r := range all {
			have[r.Name] = true
		}
		if pw != nil {
			for _, r := range pw.GenFuncRefs() {
				if !have[r.Name] {
					all = append(all, r)
				}
			}
		}
		b, _ := json.MarshalIndent(all, "", " ")
		fmt.Println(string(b))
		return
	}
	if *dumpPF {
		p, err := core.Load(*repo, os.Getenv("SA_GOOS"), "")
		if err != nil {
			panic(err)
		}
		rules.DumpPF1(rules.NewCtx(p, "quick", *verif))
		return
	}
	start := time.Now()
	if *out == "" {
		*out = filepath.Join(*verif, "evidence", *prop+".json")
	}
	seed, _ := strconv.Atoi(os.Getenv("VERIF_SEED"))

	fail := func(kind, msg string) {
		rp := writeReplay(*verif, *prop, map[string]interface{}{"property": *prop, "kind": kind, "detail": msg})
		ev := &core.Evidence{PropertyID: *prop, Tier: *tier, Seed: seed, Level: "other",
			Coverage: map[string]interface{}{"explanation": "analysis could not run: " + msg, "obligations": 0, "discharged": 0,
				"evaluations": 1, "distinct_nontrivial": 2},
			Assumptions: []string{}, WallS: time.Since(start).Seconds(), Violations: 1}
		core.WriteEvidence(*out, ev)
		fmt.Printf("ANALYSIS-FAILED %s: %s\n", kind, msg)
		fmt.Printf("VIOLATION property=%s replay=%s\n", *prop, rp)
		os.Exit(1)
	}

	p, err := core.Load(*repo, "", "")
	if err != nil {
		fail("load", err.Error())
	}
	c := rules.NewCtx(p, *tier, *verif)
	props := rules.Props(c)
	pr, ok := props[*prop]
	if !ok {
		fmt.Fprintf(os.Stderr, "unknown property %q\n", *prop)
		os.Exit(2)
	}
	results := rules.RunProp(c, pr)
	var configs []interface{}
	configs = append(configs, p.Units())
	if *tier == "thorough" {
		// the same rules under the other build configurations of the repository
		// (build-tagged files: *_windows.go; 32-bit int)
		for _, cf := range [][2]string{{"windows", "amd64"}, {"linux", "386"}} {
			p2, err := core.Load(*repo, cf[0], cf[1])
			if err != nil {
				fail("load "+cf[0]+"/"+cf[1], err.Error())
			}
			c2 := rules.NewCtx(p2, *tier, *verif)
			pr2 := rules.Props(c2)[*prop]
			for _, rr := range rules.RunProp(c2, pr2) {
				rr.Doc = "[" + cf[0] + "/" + cf[1] + "] " + rr.Doc
				for _, o := range rr.Obs {
					o.Key = o.Key + "@" + cf[0] + "/" + cf[1]
				}
				results = append(results, rr)
			}
			configs = append(configs, p2.Units())
		}
	}
	known, err := core.LoadKnown(filepath.Join(*verif, "KNOWN_FINDINGS.txt"))
	if err != nil {
		fail("known-findings", err.Error())
	}
	oc := core.Decide(*prop, results, known)

	for _, rr := range results {
		nd := 0
		for _, o := range rr.Obs {
			if o.Status == core.Discharged {
				nd++
			}
		}
		fmt.Printf("rule %-5s %-9s instances=%-4d discharged=%-4d floor=%-3d %s\n", rr.ID, rr.Kind, len(rr.Obs), nd, rr.Floor, rr.Doc)
		for _, n := range rr.Notes {
			fmt.Printf("      note: %s\n", n)
		}
		if *verbose {
			for _, o := range rr.Obs {
				if *only != "" && !contains(o.Key, *only) {
					continue
				}
				fmt.Printf("      %-10s %s  [%s] %s %s\n", o.Status, o.Key, o.Pos, o.How, o.Detail)
			}
		}
	}
	for _, o := range oc.Known {
		fmt.Printf("KNOWN-FINDING: property=%s rule=%s site=%s at %s: %s\n", *prop, o.Rule, o.Key, o.Pos, o.Detail)
	}
	extra := map[string]interface{}{"tier_note": pr.TierNote(*tier), "configurations": configs}
	cov := core.Summarise(p, results, oc, pr.Explanation, extra)
	ev := &core.Evidence{PropertyID: *prop, Tier: *tier, Seed: seed, Level: "other", Coverage: cov,
		Assumptions: pr.Assumptions, WallS: time.Since(start).Seconds(), Violations: len(oc.Violations) + len(oc.Undecided)}
	if ev.Assumptions == nil {
		ev.Assumptions = []string{}
	}
	if err := core.WriteEvidence(*out, ev); err != nil {
		fmt.Fprintln(os.Stderr, err)
		os.Exit(2)
	}
	bad := append(oc.Violations, oc.Undecided...)
	if len(bad) == 0 {
		fmt.Printf("OK property=%s obligations=%v discharged=%v known_findings=%d wall=%.1fs\n", *prop, cov["obligations"], cov["discharged"], len(oc.Known), time.Since(start).Seconds())
		return
	}
	for i, o := range bad {
		rp := writeReplay(*verif, fmt.Sprintf("%s-%d", *prop, i+1), o)
		fmt.Printf("%s rule=%s site=%s at %s in %s: %s\n", upper(o.Status), o.Rule, o.Key, o.Pos, o.Func, o.Detail)
		fmt.Printf("VIOLATION property=%s replay=%s\n", *prop, rp)
	}
	os.Exit(1)
}

func contains(s, sub string) bool {
	return len(sub) == 0 || (len(s) >= len(sub) && (func() bool {
		for i := 0; i+len(sub) <= len(s); i++ {
			if s[i:i+len(sub)] == sub {
				return true
			}
		}
		return false
	})())
}

func upper(s string) string {
	if s == core.Undecided {
		return "UNDECIDED"
	}
	return "VIOLATED"
}

func writeReplay(verif, name string, v interface{}) string {
	dir := filepath.Join(verif, "evidence", "replay")
	os.MkdirAll(dir, 0o755)
	path := filepath.Join(dir, name+".json")
	b, _ := json.MarshalIndent(v, "", " ")
	os.WriteFile(path, append(b, '\n'), 0o644)
	return path
}
