import subprocess,sys
sys.exit(subprocess.run(["python3","/verif/tools/rej_apply.py","C09-R4A"]).returncode)
