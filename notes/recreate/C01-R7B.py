p='printer/printer.go'; s=open(p).read()
a=s.index('func (p *printer) heredoc() {')
b=s.index('func (p *printer) word(w ast.Word) {')
new='''func (p *printer) heredoc() {
	p.bodies(p.take())
	// pop; the here-documents announced inside a body are printed after
	// the bodies
	list := p.take()
	p.stack = p.stack[:len(p.stack)-1]
	p.bodies(list)
}

// flush prints the bodies of the pending here-documents of all frames
// of the current line, in the order of their operators.
func (p *printer) flush() {
	p.bodies(p.take())
	p.bodies(p.take())
}

// take removes the pending here-documents from the frames.
func (p *printer) take() []*ast.Redir {
	var list []*ast.Redir
	for i := p.base; i < len(p.stack); i++ {
		list = append(list, p.stack[i]...)
		p.stack[i] = nil
	}
	return list
}

func (p *printer) bodies(list []*ast.Redir) {
	for _, r := range list {
		p.w.WriteByte('\\n')
		p.word(r.Heredoc)
		if n := len(r.Heredoc); n != 0 {
			if w, ok := r.Heredoc[n-1].(*ast.Lit); !ok || w.Value == "" || w.Value[len(w.Value)-1] != '\\n' {
				// the last line of the body was continued up to the
				// delimiter, which must begin a line
				p.w.WriteString("\\\\\\n")
			}
		}
		p.word(r.Delim)
	}
}

'''
s=s[:a]+new+s[b:]
open(p,'w').write(s)
