import subprocess, sys, re
def apply_with_rejects(name):
    r = subprocess.run(['patch','-p1','--fuzz=3','-i','/verif/seeded/%s/patch.diff' % name], capture_output=True, text=True)
    return r.stdout
OLD = '''func (l *lexer) scanToken() int {
	// the next word is examined too, when the value of an alias which
	// ends here ends in a <blank>; the values of the aliases substituted
	// inside it end at the same place
	var blank bool
	for i := len(l.aliases) - 1; i >= 0 && l.aliases[i].value.Len() == 0; i-- {
		if l.aliases[i].blank {
			blank = true
			break
		}
	}
Scan:
	tok := l.scanRawToken()
	if tok == WORD && blank && l.subst() {
		goto Scan
	}
	return tok
}
'''
def replace_scan(new):
    p='parser/lexer.go'; s=open(p).read()
    assert s.count(OLD)==1, 'scanToken anchor'
    open(p,'w').write(s.replace(OLD,new))
