import sys; sys.path.insert(0,'/tmp/edits'); from common import *
replace_scan('''func (l *lexer) scanToken() int {
	for {
		blank := l.afterBlank()
		tok := l.scanRawToken()
		if tok != WORD || !blank || !l.subst() {
			return tok
		}
	}
}

// afterBlank reports whether the next word follows an alias whose value
// ends in a <blank>.
func (l *lexer) afterBlank() bool {
	for i := len(l.aliases) - 1; i >= 0 && l.aliases[i].value.Len() == 0; i-- {
		if l.aliases[i].blank {
			return true
		}
	}
	return false
}
''')
