import subprocess,sys
new='''func (w *Quote) End() Pos {
	end := w.Value.End()
	switch {
	case w.Tok == BACKSLASHQ:
		if end.IsZero() && !w.TokPos.IsZero() {
			// a backslash at the end of the input quotes nothing
			end = w.TokPos.shift(1)
		}
		return end
	case end.IsZero():
		if w.TokPos.IsZero() {
			return end
		}
		// nothing between the quotes
		end = w.TokPos.shift(2)
	}
	return end.shift(1)
}
'''.replace('BACKSLASHQ', chr(96)+chr(92)+chr(96))
sys.exit(subprocess.run(['python3','/tmp/edits/quoteend.py','C18-R8A',new]).returncode)
