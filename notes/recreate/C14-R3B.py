import subprocess,sys
sys.exit(subprocess.run(["python3","/verif/tools/rej_apply.py","C14-R3B"]).returncode)
