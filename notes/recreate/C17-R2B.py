import sys; sys.path.insert(0,'/tmp/edits'); from common import *
replace_scan('''func (l *lexer) scanToken() int {
	for {
		// the next word is examined only when the value of an alias
		// which ends here ends with <blank>
		var blank bool
		for i := len(l.aliases) - 1; i >= 0 && l.aliases[i].value.Len() == 0; i-- {
			if l.aliases[i].blank {
				blank = true
				break
			}
		}
		tok := l.scanRawToken()
		if tok != WORD || !blank || !l.subst() {
			return tok
		}
	}
}
''')
