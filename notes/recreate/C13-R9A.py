p='interp/interp.go'; s=open(p).read()
old='''		// a special parameter is set although it may be null ($- while
		// no option is on), except $! while there is no background
		// command
		set = name != "!"
'''
new='''		// a special parameter is always set, although it may be null:
		// $- while no option is on, $! while there is no background job
		set = true
'''
assert s.count(old)==1; s=s.replace(old,new); open(p,'w').write(s)
