p='printer/printer.go'; s=open(p).read()
old='''			if n := len(r.Heredoc); n != 0 {
				if w, ok := r.Heredoc[n-1].(*ast.Lit); !ok || w.Value == "" || w.Value[len(w.Value)-1] != '\\n' {
					// the last line of the body was continued up to the
					// delimiter, which must begin a line
					p.w.WriteString("\\\\\\n")
				}
			}
'''
new='''			if !endsWithNewline(r.Heredoc) {
				// the last line of the body is continued up to the
				// delimiter ("\\<newline>"), which stays a line of its own
				p.w.WriteString("\\\\\\n")
			}
'''
assert s.count(old)==1; s=s.replace(old,new)
s=s.replace('''func (p *printer) word(w ast.Word) {''','''// endsWithNewline reports whether the text of w ends with a <newline>.
func endsWithNewline(w ast.Word) bool {
	if n := len(w); n != 0 {
		if lit, ok := w[n-1].(*ast.Lit); ok {
			return strings.HasSuffix(lit.Value, "\\n")
		}
	}
	return false
}

func (p *printer) word(w ast.Word) {''',1)
s=s.replace('\t"io"\n','\t"io"\n\t"strings"\n',1)
open(p,'w').write(s)
