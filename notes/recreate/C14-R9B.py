import subprocess, glob, os
subprocess.run(['patch','-p1','--fuzz=3','-i','/verif/seeded/C14-R9B/patch.diff'], capture_output=True, text=True)
for f in glob.glob('*/*.rej')+glob.glob('*/*.orig'): os.remove(f)
p='interp/expand.go'; s=open(p).read()
assert s.count('if !quote && pe.Op == "" {')==1
s=s.replace('if !quote && pe.Op == "" {','if mode&Quote == 0 && pe.Op == "" {')
open(p,'w').write(s)
