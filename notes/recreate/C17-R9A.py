import sys; sys.path.insert(0,'/tmp/edits'); from common import *
replace_scan('''func (l *lexer) scanToken() int {
	// the next word is examined as well when it follows the end of an
	// alias value which ends in a <blank>; the aliases which have ended
	// are still on the stack, the innermost one on top, and an alias
	// which ends with the last word of an enclosing value ends that
	// value, too
	var blank bool
	for i := len(l.aliases) - 1; i >= 0 && !blank; i-- {
		if a := l.aliases[i]; a.value.Len() == 0 {
			blank = a.blank
		}
	}
Scan:
	tok := l.scanRawToken()
	if tok == WORD && blank && l.subst() {
		goto Scan
	}
	return tok
}
''')
