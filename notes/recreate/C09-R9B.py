import sys; sys.path.insert(0,'/tmp/edits'); from common import *
print(apply_with_rejects('C09-R9B')[-600:])
replace_scan('''func (l *lexer) scanToken() int {
	return l.scanAliasToken(l.blank())
}

// blank reports whether an alias whose value ends in a <blank> is used
// up here.
func (l *lexer) blank() bool {
	for i := len(l.aliases) - 1; i >= 0 && l.aliases[i].value.Len() == 0; i-- {
		if l.aliases[i].blank {
			return true
		}
	}
	return false
}

// scanAliasToken scans a token. When blank is true and the token is a
// word, it is subject to alias substitution.
func (l *lexer) scanAliasToken(blank bool) int {
Scan:
	tok := l.scanRawToken()
	if tok == WORD && blank && l.subst() {
		goto Scan
	}
	return tok
}
''')
