import sys; sys.path.insert(0,'/tmp/edits'); from common import *
print(apply_with_rejects('C17-R6A')[-300:])
p='parser/lexer.go'; s=open(p).read()
old='l.aliases[i].value.Len() == 0; i-- {'
assert s.count(old)==1
s=s.replace(old,'l.aliases[i].len() == 0; i-- {')
open(p,'w').write(s)
