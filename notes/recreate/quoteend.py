import subprocess, sys, glob, os
name, newfn = sys.argv[1], sys.argv[2]
subprocess.run(['patch','-p1','--fuzz=3','-i','/verif/seeded/%s/patch.diff' % name], capture_output=True, text=True)
for f in glob.glob('*/*.rej')+glob.glob('*/*.orig'): os.remove(f)
p='ast/ast.go'; s=open(p).read()
a=s.index('func (w *Quote) End() Pos {')
b=s.index('\n}\n',a)+3
s=s[:a]+newfn+s[b:]
open(p,'w').write(s)
