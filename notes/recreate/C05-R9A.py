p='printer/printer.go'; s=open(p).read()
old='''		p.lv++
		// inside a word: not the end of a line of commands
		p.w.WriteByte('\\n')'''
new='''		p.lv++
		p.newline()'''
assert s.count(old)==1; s=s.replace(old,new)
old='''		p.lv--
		p.w.WriteByte('\\n')'''
new='''		p.lv--
		p.newline()'''
assert s.count(old)==1; s=s.replace(old,new)
open(p,'w').write(s)
