p='parser/lexer.go'; s=open(p).read()
old='''	case ';':
		l.emit(';')
		if !l.linebreak() {
			return nil
		}
		for {
			switch tok = l.tr(l.scanRawToken()); {'''
new='''	case ';':
		// the bodies of pending here-documents begin here
		if l.heredoc.exists() && !l.readHeredocs() {
			return nil
		}
		l.emit(';')
		if !l.linebreak() {
			return nil
		}
		for {
			switch tok = l.tr(l.scanRawToken()); {'''
assert s.count(old)==1; s=s.replace(old,new)
old='''			if tok == '\\n' && l.heredoc.exists() && !l.readHeredocs() {'''
new='''			if l.heredoc.exists() && !l.readHeredocs() {'''
assert s.count(old)==1; s=s.replace(old,new)
open(p,'w').write(s)
