import subprocess,sys
new='''func (w *Quote) End() Pos {
	end := w.Value.End()
	switch {
	case w.Tok == BACKSLASHQ:
		return end
	case end.IsZero():
		if w.TokPos.IsZero() {
			return end
		}
		// an empty string has no parts: "" is the whole of it
		return w.TokPos.Add(w.Tok + w.Tok)
	}
	return end.shift(1)
}
'''.replace('BACKSLASHQ', chr(96)+chr(92)+chr(96))
rc=subprocess.run(['python3','/tmp/edits/quoteend.py','C18-R9B',new]).returncode
# their Lit.End one-liner was in the same rejected hunk
p='ast/ast.go'; s=open(p).read()
a=s.index('func (w *Lit) End() Pos {')
b=s.index('\n}\n',a)+3
s=s[:a]+'func (w *Lit) End() Pos { return w.ValuePos.Add(w.Value) }\n'+s[b:]
open(p,'w').write(s)
sys.exit(rc)
