p='printer/printer.go'; s=open(p).read()
old='''			p.w.WriteByte('\\n')
			p.word(r.Heredoc)
			if n := len(r.Heredoc); n != 0 {
				if w, ok := r.Heredoc[n-1].(*ast.Lit); !ok || w.Value == "" || w.Value[len(w.Value)-1] != '\\n' {
					// the last line of the body was continued up to the
					// delimiter, which must begin a line
					p.w.WriteString("\\\\\\n")
				}
			}
			p.word(r.Delim)
'''
new='''			p.w.WriteByte('\\n')
			if p.tabbed(r) {
				p.lines(r.Heredoc)
			} else {
				p.word(r.Heredoc)
			}
			if n := len(r.Heredoc); n != 0 {
				if w, ok := r.Heredoc[n-1].(*ast.Lit); !ok || w.Value == "" || w.Value[len(w.Value)-1] != '\\n' {
					// the last line of the body was continued up to the
					// delimiter, which must begin a line
					p.w.WriteString("\\\\\\n")
				}
			}
			if p.tabbed(r) {
				p.lines(r.Delim)
			} else {
				p.word(r.Delim)
			}
'''
assert s.count(old)==1; s=s.replace(old,new)
s=s.replace('''func (p *printer) word(w ast.Word) {''','''// tabbed reports whether the here-document of r can follow the indentation
// of its command: the shell strips the leading tabs of its lines, and it has
// been written that way.
func (p *printer) tabbed(r *ast.Redir) bool {
	if r.Op != "<<-" || p.cfg.Indent&Space != 0 {
		return false
	}
	w, ok := r.Heredoc[0].(*ast.Lit)
	return ok && strings.HasPrefix(w.Value, "\\t")
}

// lines prints w, which starts at the beginning of a line, with the leading
// tabs of each line replaced by the indentation.
func (p *printer) lines(w ast.Word) {
	bol := true
	for _, wp := range w {
		lit, ok := wp.(*ast.Lit)
		if !ok {
			if bol {
				p.indent()
				bol = false
			}
			p.wordPart(wp)
			continue
		}
		for s := lit.Value; s != ""; {
			if bol {
				if s = strings.TrimLeft(s, "\\t"); s == "" {
					break
				}
				if s[0] != '\\n' {
					p.indent()
				}
			}
			i := strings.IndexByte(s, '\\n') + 1
			if i == 0 {
				i = len(s)
			}
			p.w.WriteString(s[:i])
			bol = s[i-1] == '\\n'
			s = s[i:]
		}
	}
}

func (p *printer) word(w ast.Word) {''',1)
s=s.replace('\t"io"\n','\t"io"\n\t"strings"\n',1)
open(p,'w').write(s)
