import re
p='interp/interp.go'; s=open(p).read()
a=s.index('// Get retrieves the variable named by the name.')
b=s.index('// Set sets the value of the variable named by the name.')
new='''// Get retrieves the variable named by the name.
func (env *ExecEnv) Get(name string) (v Var, set bool) {
	var value string
	switch {
	case env.isPosParam(name):
		if i, _ := strconv.Atoi(name); i < len(env.Args) {
			name = strconv.Itoa(i)
			value = env.Args[i]
		}
	case env.isSpParam(name):
		switch name {
		case "#":
			value = strconv.Itoa(len(env.Args) - 1)
		case "?":
			value = "0"
		case "-":
			value = env.Opts.String()
		case "$":
			value = strconv.Itoa(os.Getpid())
		case "0":
			value = env.Args[0]
		}
	default:
		v, set = env.vars[env.keyFor(name)]
		return
	}
	v = Var{
		Name:  name,
		Value: value,
	}
	set = value != ""
	return
}

'''
s=s[:a]+new+s[b:]
open(p,'w').write(s)
