import subprocess,sys
sys.exit(subprocess.run(["python3","/verif/tools/rej_apply.py","C13-R5B"]).returncode)
