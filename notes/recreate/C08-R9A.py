import subprocess,sys
sys.exit(subprocess.run(["python3","/verif/tools/rej_apply.py","C08-R9A"]).returncode)
