import subprocess, glob, os
subprocess.run(['patch','-p1','--fuzz=3','-i','/verif/seeded/C08-R6B/patch.diff'], capture_output=True, text=True)
for f in glob.glob('*/*.rej')+glob.glob('*/*.orig'): os.remove(f)
p='parser/lexer.go'; s=open(p).read()
a=s.index('// readHeredocs reads the bodies of the pending here-documents. It')
b=s.index('\tHeredoc:\n', a)
new='''// heredocEnd reports whether the current line is the delimiter line of
// the here-document r. If so, the body and the delimiter are stored to r.
func (l *lexer) heredocEnd(r *ast.Redir) bool {
	for i := len(l.word) - 1; i >= 0; i-- {
		if l.word[i].Pos().Col() == 1 {
			// a line which continues the preceding one is not the
			// beginning of a line
			if i > 0 {
				if w, ok := l.word[i-1].(*ast.Lit); !ok || !strings.HasSuffix(w.Value, "\\n") {
					continue
				}
			}
			if s := l.print(l.word[i:]); strings.ContainsRune(s, '\\n') {
				break
			} else if s == l.heredoc.delim || r.Op == "<<-" && strings.TrimLeft(s, "\\t") == l.heredoc.delim {
				r.Heredoc = l.word[:i]
				r.Delim = l.word[i:]
				l.word = nil
				return true
			}
		}
	}
	return false
}

// readHeredocs reads the bodies of the pending here-documents. It
// reports whether lexing can be continued.
func (l *lexer) readHeredocs() bool {
	for h := l.heredoc.pop(); h != nil; h = l.heredoc.pop() {
		l.mark(0)
		// unquote
		var word ast.Word
		for _, w := range h.Word {
			if q, ok := w.(*ast.Quote); ok {
				word = append(word, q.Value...)
				l.heredoc.quoted = true
			} else {
				word = append(word, w)
			}
		}
		// token → string
		l.heredoc.delim = l.print(word)
'''
s=s[:a]+new+s[b:]
s=s.replace('find(h, delim)','l.heredocEnd(h)').replace('case !quoted:','case !l.heredoc.quoted:')
open(p,'w').write(s)
