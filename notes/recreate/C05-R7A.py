p='printer/printer.go'; s=open(p).read()
old='''		// the lines of a command substitution are not where the
		// here-documents of the command around it are read
		base := p.base
		p.base = len(p.stack)
		p.compoundList(w.List)
		p.newline()
		p.base = base
		p.indent()
'''
new='''		p.compoundList(w.List)
		p.newline()
		p.indent()
'''
assert s.count(old)==1; s=s.replace(old,new)
open(p,'w').write(s)
