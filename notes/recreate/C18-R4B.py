import subprocess,re
s=open('/verif/seeded/C18-R4B/patch.diff').read()
s=s.replace('p.flush()','p.finish()').replace('func (p *printer) flush() error','func (p *printer) finish() error')
open('/tmp/edits/C18-R4B.diff','w').write(s)
r=subprocess.run(['patch','-p1','-s','--fuzz=3','-i','/tmp/edits/C18-R4B.diff'])
raise SystemExit(r.returncode)
