p='ast/ast.go'; s=open(p).read()
old='''		x := c.Expr.Pos()
		r := c.Redirs[0].Pos()
		// a command which consists of redirections only has an
		// empty simple command
		if !x.IsZero() && x.Before(r) {
			return x
		}
		return r
'''
new='''		r := c.Redirs[0].Pos()
		if x, ok := c.Expr.(*SimpleCmd); ok && len(x.Args) == 0 {
			// redirections without a command name: the simple command
			// itself has no position, which is not "before" r
			return r
		}
		if x := c.Expr.Pos(); x.Before(r) {
			return x
		}
		return r
'''
assert s.count(old)==1; open(p,'w').write(s.replace(old,new))
