import sys; sys.path.insert(0,'/tmp/edits'); from common import *
replace_scan('''func (l *lexer) scanToken() int {
	// the next word is examined too when the text of an alias which ends
	// in a <blank> has just been consumed. An alias can be consumed along
	// with the aliases it was found in (a='b ' and b='c'), so the innermost
	// one alone does not tell.
	var blank bool
	if n := len(l.aliases); n != 0 && l.aliases[n-1].value.Len() == 0 {
		for _, a := range l.aliases {
			blank = blank || a.blank
		}
	}
Scan:
	tok := l.scanRawToken()
	if tok == WORD && blank && l.subst() {
		goto Scan
	}
	return tok
}
''')
