import subprocess,sys
sys.exit(subprocess.run(["python3","/verif/tools/rej_apply.py","C19-R10B"]).returncode)
