#!/bin/sh
# usage: tools/renametest.sh [-locals] [-funcs] [-fields] [-types]   — rename-robustness experiment on a scratch copy
export GOFLAGS=-mod=mod GOPROXY=off GOSUMDB=off GOTOOLCHAIN=local
d=$(mktemp -d /tmp/sa-ren-XXXX)
git -C /repo archive HEAD | tar -x -C $d
[ -x /verif/bin/renamer ] || (cd /verif/sa && go build -o /verif/bin/renamer ./cmd/renamer)
/verif/bin/renamer -dir $d "$@" || exit 2
(cd $d && go build ./... && go test -vet=off -count=1 ./... >/dev/null 2>&1 && echo "variant builds and passes the tests") || echo "VARIANT BROKEN"
for i in 01 02 03 04 05 06 07 08 09 10 11 12 13 14 15 16 17 18 19 20; do /verif/bin/sacheck -prop C$i -repo $d -verif /verif -out $d/ev.json 2>&1 | grep "^VIOLATED\|^UNDEC\|^ANALYSIS" | sed 's/ at .*//' ; done | sort | uniq -c | sort -rn | cut -c1-200
rm -rf $d
