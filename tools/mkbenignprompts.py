#!/usr/bin/env python3
"""Creates one scratch worktree of /repo's HEAD and one prompt file per code area for a round of
behaviour-preserving changes (false-alarm measurement).  usage: tools/mkbenignprompts.py /tmp/bn3
Afterwards: python3 tools/trybenign.py /tmp/bn3/<area>/_benign <area>   (BENIGN_DIR=benign3)
            git -C /repo worktree remove --force /tmp/bn3/<area>
The prompt gives a sub-agent only the area it should work in and its own worktree (nothing from /verif).
"""
import os, subprocess, sys

AREAS = {
    'lexer': 'parser/lexer.go (the hand-written shell lexer: states, scanners, alias substitution, here-documents, read/unread, error recording)',
    'parsetop': 'parser/parser.go.y + parser/parser.go (grammar actions and the hand-written tail: ParseCommand(s), open, assign, extract …; keep the .y and the generated .go consistent: the tail is copied verbatim, reduce actions appear as `case N:` bodies with $$/$n rewritten as yyVAL/yyDollar[n]) and ast/ast.go',
    'printer': 'printer/printer.go (the pretty-printer) and the parts of ast/ it relies on',
    'expand': 'interp/expand.go and interp/interp.go (word expansion, parameter expansion, field splitting, ExecEnv)',
    'arithpat': 'interp/arith.go.y + interp/arith.go + interp/lexer.go (arithmetic evaluator; keep .y and .go consistent) and pattern/*.go (pattern matching and glob)',
}

T = '''You are working in a scratch git worktree of the Go library hattya/go.sh (a POSIX Shell Command Language parser in Go: packages ast, parser, printer, interp (word expansion + arithmetic evaluator), pattern (glob matching)). The worktree is {dir} . Work ONLY inside {dir}. Do not read, list or touch /verif, /repo, or any other directory under /tmp (the Go toolchain and module cache are fine). No network is available. In every shell call first run:
  export GOFLAGS=-mod=mod GOPROXY=off GOSUMDB=off GOTOOLCHAIN=local
Do NOT use `git stash`. To save and restore a change use:  git diff > /path/x.diff ; git checkout -- . ; git apply /path/x.diff

TASK: write EIGHT independent, alternative source changes (each applying on its own to the clean tree) to the library's non-test code in this area:
  {area}
Each change must be STRICTLY BEHAVIOUR-PRESERVING for every input, every schedule and every error path - the kind of change a maintainer makes without intending any functional difference - and realistic in size (30-150 changed lines; at least two of the eight should restructure one of the most intricate functions of the area). This round is about ADDITIVE and STRUCTURAL changes; use a different kind for each of the eight, for example:
  - a new unexported helper or small type that takes over part of an existing function (state kept in a struct instead of locals, a cursor type, an options struct)
  - a switch turned into a lookup table / map / function table (or the reverse), constants introduced for magic values
  - a new exported convenience function or method that the old entry point now delegates to (the old API keeps its exact behaviour)
  - a new configuration field / option with a neutral default that changes nothing unless set
  - defensive code that can never trigger (an extra bounds check returning the same thing, an assertion, a default case)
  - loops restructured (index loop <-> range, early continue, labelled break removed via helper), goto removed
  - two near-duplicate code blocks merged into one helper WITHOUT changing what either does (check the subtle differences!)
  - error values/messages produced through one constructor helper, same text and type as before
  - moving code between files of the package, method <-> function, value <-> pointer receiver where equivalent
Do not add caches, pools or other state that survives a call, and do not change which goroutine does what.
For EACH change verify: go build ./... ; go vet ./... ; go test -vet=off -count=1 ./... (the unedited suite passes); and write a differential harness (a Go test or program comparing the patched code against the ORIGINAL code on many inputs - keep a copy of the original package under another import path or compare recorded outputs from a clean checkout - at least 10^5 generated inputs incl. error inputs, unusual characters, nested constructs; for parser changes compare ASTs (printed), comments, errors and the amount of input consumed; for concurrent code run the comparison several times). A change that shows ANY difference is not behaviour-preserving: fix it or drop it and write another.

DELIVER in {dir}/_benign/NN/ (NN = 01..08):
  patch.diff  - `git diff` of the change (must not include _benign/)
  NOTE.md     - kind of change, functions touched, why it is behaviour-preserving, what the differential harness compared and how many cases, results of build/vet/test
If, while doing this, you find an input on which the ORIGINAL code misbehaves (crash, hang, non-deterministic result, wrong result against POSIX), describe it with a reproducer in {dir}/_benign/FOUND.md.
Never commit. When finished leave the worktree CLEAN (no change applied; only _benign/ untracked). Keep your final answer short: one line per change.'''

PLAIN = """Each change must be STRICTLY BEHAVIOUR-PRESERVING for every input, every schedule and every error path - the kind of everyday maintenance edit a maintainer makes without intending any functional difference - and realistic in size (10-80 changed lines; one or two of the eight may be larger). Use a different kind for each of the eight, for example: extract a helper / inline a helper; closure <-> method <-> function; switch <-> if chain; early returns instead of nesting (or the reverse); renaming locals, unexported functions, fields or types; splitting a file or moving declarations; replacing a hand-written loop by a standard-library call that is exactly equivalent (check the corner cases!) or the reverse; simplifying boolean conditions; introducing a named constant or a small unexported type; reordering independent statements or switch cases; modernising syntax (any for interface{{}}, min/max, range over int where the go.mod version allows it - check go.mod); comments and documentation together with a small code tidy-up.
Do not add caches, pools or other state that survives a call, and do not change which goroutine does what."""

def main():
    global T
    if os.environ.get('BENIGN_STYLE') == 'plain':
        a = T.index('Each change must be STRICTLY BEHAVIOUR-PRESERVING')
        b = T.index('For EACH change verify:')
        T = T[:a] + PLAIN + '\n' + T[b:]
    root = sys.argv[1]
    os.makedirs(root, exist_ok=True)
    for k, area in AREAS.items():
        d = os.path.join(root, k)
        if not os.path.isdir(d):
            subprocess.check_call(['git', '-C', '/repo', 'worktree', 'add', '-q', '--detach', d, 'HEAD'])
        open(os.path.join(root, k + '.prompt.txt'), 'w').write(T.format(dir=d, area=area))
    print('ok')

main()
