#!/usr/bin/env python3
"""Re-runs every stored independent breaking change (seeded/<id>/patch.diff) against the current
checker (scratch copies of /repo HEAD; /repo untouched) and writes seeded/RESULTS.md + updates meta.json."""
import json, os, subprocess, sys, tempfile, shutil, glob, concurrent.futures
ROOT = os.path.dirname(os.path.dirname(os.path.abspath(__file__)))
ENV = dict(os.environ, GOFLAGS='-mod=mod', GOPROXY='off', GOSUMDB='off', GOTOOLCHAIN='local', GOWORK='off')
PROPS = ['C%02d' % i for i in range(1, 21)]

def one(d):
    meta = json.load(open(os.path.join(d, 'meta.json')))
    if meta.get('retired'):
        return d, meta, 'retired'
    t = tempfile.mkdtemp(prefix='sa-tab-')
    try:
        subprocess.check_call('git -C /repo archive HEAD | tar -x -C %s' % t, shell=True)
        r = subprocess.run(['patch', '-p1', '-s', '-i', os.path.join(d, 'patch.diff')], cwd=t, capture_output=True, text=True)
        if r.returncode != 0:
            return d, meta, None
        b = subprocess.run(['go', 'build', './...'], cwd=t, env=ENV, capture_output=True, text=True)
        if b.returncode != 0:
            return d, meta, 'nobuild'
        fired = {}
        for p in PROPS:
            r = subprocess.run([os.environ.get('SACHECK', os.path.join(ROOT, 'bin', 'sacheck')), '-prop', p, '-repo', t, '-verif', ROOT, '-out', os.path.join(t, 'ev.json')], env=ENV, capture_output=True, text=True)
            rules = sorted({l.split('rule=')[1].split(' ')[0] for l in r.stdout.splitlines() if l.startswith('VIOLATED') or l.startswith('UNDECIDED')})
            if rules:
                fired[p] = rules
        return d, meta, fired
    finally:
        shutil.rmtree(t, ignore_errors=True)

def main():
    dirs = sorted(glob.glob(os.path.join(ROOT, 'seeded', 'C*-*')))
    rows = []
    with concurrent.futures.ThreadPoolExecutor(8) as ex:
        for d, meta, fired in ex.map(one, dirs):
            name = os.path.basename(d)
            prop = meta['property']
            if fired is None:
                rows.append((name, prop, 'patch no longer applies', '', ''))
                continue
            if fired == 'retired':
                rows.append((name, prop, 'retired', '', meta['retired'][:120]))
                continue
            if fired == 'nobuild':
                rows.append((name, prop, 'patch applies but no longer builds', '', ''))
                continue
            own = ', '.join(fired.get(prop, []))
            others = '; '.join('%s:%s' % (p, ','.join(r)) for p, r in fired.items() if p != prop)
            meta['checks_fired_rules'] = fired
            meta['caught_by_own_property_check'] = prop in fired
            meta['caught_by_any_check'] = bool(fired)
            json.dump(meta, open(os.path.join(d, 'meta.json'), 'w'), indent=1)
            rows.append((name, prop, 'CAUGHT' if prop in fired else ('other property only' if fired else 'MISSED'), own, others))
    out = ['# Independent breaking changes vs. the checks', '',
           'Each row is one change written by a sub-agent that saw only the property text and a scratch worktree.',
           'All were confirmed (builds, existing tests pass, demonstration fails with the change and passes without).', '',
           '| seed | property | verdict | rules of its own check that fire | other checks that fire |', '|---|---|---|---|---|']
    for r in rows:
        out.append('| %s | %s | %s | %s | %s |' % r)
    retired = sum(r[2] == 'retired' for r in rows)
    rows_live = [r for r in rows if r[2] != 'retired']
    n = len(rows_live); c = sum(r[2] == 'CAUGHT' for r in rows); o = sum(r[2] == 'other property only' for r in rows)
    out += ['', '%d changes: %d caught by the check of the property they target, %d only by another property\'s check, %d missed.' % (n, c, o, n - c - o)]
    if retired:
        out += ['', '%d stored change(s) retired: a later repair of /repo made the edit harmless, so it is no longer a violation to detect (reason in its meta.json).' % retired]
    open(os.path.join(ROOT, 'seeded', 'RESULTS.md'), 'w').write('\n'.join(out) + '\n')
    print('\n'.join(out[-1:]))
    for r in rows:
        print('%-8s %-22s %s %s' % (r[0], r[2], r[3], ('| ' + r[4]) if r[4] else ''))
main()
