#!/usr/bin/env python3
"""Runs every check against behaviour-preserving changes written by sub-agents.

usage: tools/trybenign.py <dir containing NN/patch.diff> <area-label>   e.g. tools/trybenign.py /tmp/bn/lexer/_benign lexer
       tools/trybenign.py --rerun                                        re-run everything stored under /verif/benign/

For each NN: scratch copy of /repo's HEAD (removed afterwards; /repo is never touched), patch -p1, go build,
unchanged test suite, then bin/sacheck -prop C01..C20 -repo <copy>.  Any VIOLATED / UNDECIDED / ANALYSIS-FAILED
line is a false alarm to triage.  Stores /verif/benign/<area>-NN/{patch.diff,NOTE.md,result.json}.
"""
import json, os, shutil, subprocess, sys, tempfile, glob, concurrent.futures

ROOT = os.path.dirname(os.path.dirname(os.path.abspath(__file__)))
BDIR = os.environ.get('BENIGN_DIR', 'benign')  # directory under /verif that holds the patches
ENV = dict(os.environ, GOFLAGS='-mod=mod', GOPROXY='off', GOSUMDB='off', GOTOOLCHAIN='local', GOWORK='off')
PROPS = ['C%02d' % i for i in range(1, 21)]

def sh(cmd, cwd, timeout=600):
    r = subprocess.run(cmd, cwd=cwd, env=ENV, capture_output=True, text=True, timeout=timeout)
    return r.returncode, (r.stdout + r.stderr)

def one(args):
    src, name = args
    patch = os.path.join(src, 'patch.diff')
    res = {'name': name}
    t = tempfile.mkdtemp(prefix='sa-bn-')
    try:
        subprocess.check_call('git -C /repo archive HEAD | tar -x -C %s' % t, shell=True)
        rc, out = sh(['patch', '-p1', '-s', '-i', patch], t)
        res['applies'] = rc == 0
        if rc != 0:
            res['patch_output'] = out[-300:]
            return res
        for junk in glob.glob(os.path.join(t, '*', '*.orig')) + glob.glob(os.path.join(t, '*', 'y.output')):
            os.remove(junk)
        rc, out = sh(['go', 'build', './...'], t)
        res['builds'] = rc == 0
        if rc != 0:
            # applied with fuzz onto code that has changed since: a stale patch, not a refactoring of HEAD
            res['applies'] = False
            res['patch_output'] = 'applies with fuzz but no longer builds: ' + out[-300:]
            return res
        rc, out = sh(['go', 'test', '-vet=off', '-count=1', './...'], t)
        res['tests'] = 'pass' if rc == 0 else 'FAIL'
        fired = {}
        for p in PROPS:
            r = subprocess.run([os.environ.get('SACHECK', os.path.join(ROOT, 'bin', 'sacheck')), '-prop', p, '-repo', t, '-verif', ROOT, '-out', os.path.join(t, 'ev.json')], env=ENV, capture_output=True, text=True)
            hits = [l for l in r.stdout.splitlines() if l.startswith(('VIOLATED', 'UNDECIDED', 'ANALYSIS-FAILED', 'LIVENESS', 'FLOOR'))]
            if r.returncode != 0 and not hits:
                hits = ['exit %d: %s' % (r.returncode, (r.stdout + r.stderr)[-300:])]
            if hits:
                fired[p] = [h.replace(t + '/', '')[:400] for h in hits[:6]]
        res['alarms'] = fired
        return res
    finally:
        shutil.rmtree(t, ignore_errors=True)

def main():
    jobs = []
    if sys.argv[1] == '--rerun':
        for d in sorted([d for d in glob.glob(os.path.join(ROOT, BDIR, '*-*')) if os.path.isdir(d)]):
            jobs.append((d, os.path.basename(d)))
    else:
        src, area = sys.argv[1], sys.argv[2]
        for d in sorted(glob.glob(os.path.join(src, '[0-9][0-9]'))):
            if not os.path.exists(os.path.join(d, 'patch.diff')):
                continue
            name = '%s-%s' % (area, os.path.basename(d))
            dst = os.path.join(ROOT, BDIR, name)
            shutil.rmtree(dst, ignore_errors=True)
            os.makedirs(dst)
            for f in ('patch.diff', 'NOTE.md'):
                if os.path.exists(os.path.join(d, f)):
                    shutil.copy(os.path.join(d, f), dst)
            jobs.append((dst, name))
    nalarm = 0
    with concurrent.futures.ThreadPoolExecutor(6) as ex:
        for res in ex.map(one, jobs):
            d = os.path.join(ROOT, BDIR, res['name'])
            json.dump(res, open(os.path.join(d, 'result.json'), 'w'), indent=1)
            if not res.get('applies'):
                print('%-14s PATCH DOES NOT APPLY' % res['name']); continue
            st = 'silent' if not res['alarms'] else 'ALARM'
            if res['alarms']:
                nalarm += 1
            print('%-14s build=%s tests=%s %s' % (res['name'], res['builds'], res['tests'], st))
            for p, hs in res['alarms'].items():
                for h in hs:
                    print('      %s: %s' % (p, h[:260]))
    print('%d changes, %d with alarms' % (len(jobs), nalarm))

main()
