#!/bin/sh
# usage: tools/trybn.sh <benign-dir>/<name> [props...]  — applies a stored behaviour-preserving patch to a scratch copy and prints what fires
export GOFLAGS=-mod=mod GOPROXY=off GOSUMDB=off GOTOOLCHAIN=local
n=$1; shift
props="$@"; [ -z "$props" ] && props="C01 C02 C03 C04 C05 C06 C07 C08 C09 C10 C11 C12 C13 C14 C15 C16 C17 C18 C19 C20"
t=$(mktemp -d /tmp/sa-one-XXXX); git -C /repo archive HEAD | tar -x -C $t
(cd $t && patch -p1 -s -i /verif/$n/patch.diff >/dev/null) || { echo "patch does not apply"; rm -rf $t; exit 1; }
for p in $props; do /verif/bin/sacheck -prop $p -repo $t -verif /verif -out $t/ev.json 2>&1 | grep -E "^VIOLATED|^UNDECIDED|^ANALYSIS" | sed "s/^/$p /" | cut -c1-${WIDTH:-260}; done
rm -rf $t
