#!/usr/bin/env python3
"""Creates one scratch worktree of /repo's HEAD and one prompt file per property for a round of
independent breaking changes.  usage: tools/mkseedprompts.py /tmp/wt3 [C01 C02 ...]
The prompt gives a sub-agent only the property's text and its own worktree (nothing from /verif).
Afterwards: python3 tools/tryseed.py <round-dir>/<id>/_seed/A <id> R3A ; git -C /repo worktree remove --force <round-dir>/<id>
"""
import json, os, subprocess, sys

T = '''You are working in a scratch git worktree of the Go library hattya/go.sh (a POSIX Shell Command Language parser in Go: packages ast, parser, printer, interp (word expansion + arithmetic evaluator), pattern (glob matching)). The worktree is {dir} . Work ONLY inside {dir}. Do not read, list or touch /verif, /repo, /tmp/wt or any other directory (the Go toolchain and module cache are fine). No network is available. In every shell call first run:
  export GOFLAGS=-mod=mod GOPROXY=off GOSUMDB=off GOTOOLCHAIN=local
Do NOT use `git stash` (the stash is shared with other worktrees of this repository). To save and restore a change use:  git diff > /path/x.diff ; git checkout -- . ; git apply /path/x.diff

TASK: produce TWO independent, alternative source changes (patch A and patch B, each applying on its own to the clean tree) to the library's non-test code that each BREAK the property below, while
 (a) the tree still compiles:  go build ./...
 (b) the existing, unedited test suite still passes:  go test -vet=off -count=1 ./...
 (c) the breakage needs something specific to manifest - a particular interleaving, a fault at a particular point, a multi-step sequence of operations, an unusual input, or two cooperating sites that each look fine alone - and would NOT be exposed at once by ordinary use or by the existing tests.
Make them realistic and SUBTLE: the kind of regression a careful maintainer could still introduce during a refactor, a performance optimisation, a lint-driven modernisation, a de-duplication of similar code, or a well-meant bug fix that is slightly wrong. Avoid the most obvious edits (deleting a whole check, removing a lock outright, replacing panic values); prefer changes that keep the code looking reasonable to a reviewer. Prefer two changes of different kinds, at different places in the code (they may touch more than one file/function). Note parser/parser.go and interp/arith.go are goyacc-generated from parser/parser.go.y and interp/arith.go.y: if you change code that exists in both, change both consistently (the hand-written helper functions at the end of the .y file are copied verbatim into the .go file; reduce actions appear as `case N:` bodies in the .go file with $$/$n rewritten as yyVAL/yyDollar[n]).
{extra}
PROPERTY ({id}): {title}
{statement}

DELIVER, in {dir}/_seed/ (create it):
  A/patch.diff   - output of `git diff` for change A (must not include _seed/)
  A/demo_test.go (a Go test, say which package directory it must be copied into) or A/demo/main.go + go.mod (a small program using `replace github.com/hattya/go.sh => {dir}`) that FAILS (or prints a clear FAIL / exits non-zero) with change A applied and PASSES on the clean tree
  A/NOTES.md     - which property clause it breaks, what exactly it needs in order to manifest, and the exact commands you ran with their results (build, existing tests with the change, demo with and without the change)
  B/...          - the same for change B
Verify everything yourself in both directions. Never commit. When finished leave the worktree CLEAN (no change applied; only _seed/ untracked). Keep your final answer short: one paragraph per change saying what it is.'''

def main():
    root = sys.argv[1]
    want = sys.argv[2:]
    extra = os.environ.get('SEED_EXTRA', '')
    props = {json.loads(l)['id']: json.loads(l) for l in open('/verif/properties.jsonl')}
    os.makedirs(root, exist_ok=True)
    for k, p in props.items():
        if want and k not in want:
            continue
        d = os.path.join(root, k)
        if not os.path.isdir(d):
            subprocess.check_call(['git', '-C', '/repo', 'worktree', 'add', '-q', '--detach', d, 'HEAD'])
        open(os.path.join(root, k + '.prompt.txt'), 'w').write(T.format(dir=d, id=k, title=p['title'], statement=p['statement'], extra=extra))
    print('ok')

main()
