#!/usr/bin/env python3
"""Confirms an independently written breaking change and runs every check against it.

usage: tools/tryseed.py <seed-dir> <property-id> <label>     e.g. tools/tryseed.py /tmp/wt/C12/_seed/A C12 A

Steps (all in scratch copies of /repo's HEAD under $TMPDIR, removed afterwards; /repo is never touched):
  1. clean copy: demo must pass
  2. patched copy: go build, unchanged test suite must pass, demo must fail
  3. every property check (bin/sacheck -repo <patched copy>) - records which rules fire
Writes /verif/seeded/<property>-<label>/ (patch.diff, demo files, NOTES.md, meta.json) when steps 1-2 hold.
"""
import json, os, re, shutil, subprocess, sys, tempfile, glob

ROOT = os.path.dirname(os.path.dirname(os.path.abspath(__file__)))
ENV = dict(os.environ, GOFLAGS='-mod=mod', GOPROXY='off', GOSUMDB='off', GOTOOLCHAIN='local', GOWORK='off')
PROPS = ['C%02d' % i for i in range(1, 21)]

def sh(cmd, cwd, timeout=600):
    try:
        r = subprocess.run(cmd, cwd=cwd, env=ENV, capture_output=True, text=True, timeout=timeout)
        return r.returncode, (r.stdout + r.stderr)
    except subprocess.TimeoutExpired as e:
        return 124, 'TIMEOUT\n' + ((e.stdout or b'').decode(errors='replace') if isinstance(e.stdout, bytes) else (e.stdout or ''))

def fresh_copy():
    d = tempfile.mkdtemp(prefix='sa-try-')
    subprocess.check_call('git -C /repo archive HEAD | tar -x -C %s' % d, shell=True)
    return d

def install_demo(seed, tree):
    """returns (cmd, cwd) to run the demo in tree"""
    tests = glob.glob(os.path.join(seed, '*_test.go'))
    if tests:
        pkgdir = None
        for t in tests:
            src = open(t).read()
            m = re.search(r'^package\s+(\w+)', src, re.M)
            pkg = m.group(1)
            pkgdir = pkg[:-5] if pkg.endswith('_test') else pkg
            shutil.copy(t, os.path.join(tree, pkgdir, 'zz_seed_' + os.path.basename(t)))
        names = set()
        for t in tests:
            names |= set(re.findall(r'^func (Test\w+)', open(t).read(), re.M))
        return ['go', 'test', '-vet=off', '-count=1', '-run', '^(' + '|'.join(sorted(names)) + ')$', './' + pkgdir], tree
    demo = os.path.join(seed, 'demo')
    if os.path.isdir(demo):
        dst = os.path.join(tree, '_demo')
        shutil.copytree(demo, dst)
        gm = os.path.join(dst, 'go.mod')
        if os.path.exists(gm):
            s = open(gm).read()
            s = re.sub(r'(replace\s+github.com/hattya/go.sh\s*=>\s*)\S+', r'\g<1>' + tree, s)
            open(gm, 'w').write(s)
        for f in glob.glob(os.path.join(dst, 'go.sum')):
            os.remove(f)
        return ['go', 'run', '.'], dst
    raise SystemExit('no demo found in ' + seed)

def main():
    seed, prop, label = sys.argv[1], sys.argv[2], sys.argv[3]
    patch = os.path.join(seed, 'patch.diff')
    meta = {'property': prop, 'label': label, 'source': 'independent sub-agent given only the property text and a scratch worktree'}
    clean = fresh_copy()
    pat = fresh_copy()
    try:
        cmd, cwd = install_demo(seed, clean)
        rc, out = sh(cmd, cwd)
        meta['demo_on_clean_tree'] = 'pass' if rc == 0 else 'FAIL rc=%d' % rc
        rc, out = sh(['git', 'apply', '--unsafe-paths', '--directory=' + pat, patch], '/') if False else sh(['patch', '-p1', '-s', '-i', patch], pat)
        if rc != 0:
            print('patch does not apply:', out[-400:]); meta['applies'] = False
            print(json.dumps(meta, indent=1)); return 1
        rc, out = sh(['go', 'build', './...'], pat)
        meta['builds'] = rc == 0
        rc, out = sh(['go', 'test', '-vet=off', '-count=1', './...'], pat)
        meta['existing_tests_with_change'] = 'pass' if rc == 0 else 'FAIL'
        if rc != 0:
            meta['existing_tests_output'] = out[-600:]
        cmd, cwd = install_demo(seed, pat)
        rc, out = sh(cmd, cwd, timeout=300)
        meta['demo_with_change'] = 'fails (rc=%d)' % rc if rc != 0 else 'PASSES (change not demonstrated)'
        meta['demo_output_tail'] = out[-500:]
        # remove the demo from the patched tree before analysing it
        for f in glob.glob(os.path.join(pat, '*', 'zz_seed_*')):
            os.remove(f)
        shutil.rmtree(os.path.join(pat, '_demo'), ignore_errors=True)
        fired = {}
        for p in PROPS:
            ev = os.path.join(pat, 'ev.json')
            r = subprocess.run([os.environ.get('SACHECK', os.path.join(ROOT, 'bin', 'sacheck')), '-prop', p, '-repo', pat, '-verif', ROOT, '-out', ev], env=ENV, capture_output=True, text=True)
            hits = [l for l in r.stdout.splitlines() if l.startswith('VIOLATED') or l.startswith('UNDECIDED') or l.startswith('ANALYSIS-FAILED')]
            if hits:
                fired[p] = [h[:300] for h in hits[:4]]
        meta['checks_fired'] = fired
        meta['caught_by_own_property_check'] = prop in fired
        meta['caught_by_any_check'] = bool(fired)
        ok = meta['demo_on_clean_tree'] == 'pass' and meta['builds'] and meta['existing_tests_with_change'] == 'pass' and meta['demo_with_change'].startswith('fails')
        meta['confirmed'] = ok
        notes = os.path.join(seed, 'NOTES.md')
        if os.path.exists(notes):
            txt = open(notes).read()
            meta['needs_to_manifest'] = txt[:1500]
        meta['what_was_run'] = ['demo on a clean copy of /repo HEAD', 'patch -p1 on a second copy; go build ./...; go test -vet=off -count=1 ./...', 'demo on the patched copy', 'bin/sacheck -prop C01..C20 -repo <patched copy>']
        if ok:
            dst = os.path.join(ROOT, 'seeded', '%s-%s' % (prop, label))
            shutil.rmtree(dst, ignore_errors=True)
            os.makedirs(dst)
            for f in os.listdir(seed):
                src = os.path.join(seed, f)
                if os.path.isdir(src):
                    shutil.copytree(src, os.path.join(dst, f))
                else:
                    shutil.copy(src, dst)
            json.dump(meta, open(os.path.join(dst, 'meta.json'), 'w'), indent=1)
        short = dict(meta); short.pop('needs_to_manifest', None); short.pop('demo_output_tail', None)
        print(json.dumps(short, indent=1))
        return 0
    finally:
        shutil.rmtree(clean, ignore_errors=True)
        shutil.rmtree(pat, ignore_errors=True)

sys.exit(main())
