#!/usr/bin/env python3
"""Regenerates /verif/MANIFEST.json from tools/claims.json (claimed properties) and properties.jsonl."""
import json, os, sys
root = os.path.dirname(os.path.dirname(os.path.abspath(__file__)))
props = [json.loads(l) for l in open(os.path.join(root, 'properties.jsonl'))]
claims = json.load(open(os.path.join(root, 'tools', 'claims.json')))
checks, na = [], []
for p in props:
    c = claims.get(p['id'])
    if c and c.get('claimed'):
        checks.append({
            "property_id": p['id'],
            "quick_cmd": "./run %s quick" % p['id'],
            "thorough_cmd": "./run %s thorough" % p['id'],
            "evidence_file": "evidence/%s.json" % p['id'],
            "replay_cmd_template": "./run --replay {path}",
            "engine": "sacheck",
            "level_claimed": {"category": "other", "text": c['text'], "design_ref": c.get('design_ref', 'DESIGN.md §4 ' + p['id'])},
            "level_note": c['note'],
            "technique": c['technique'],
        })
    else:
        na.append({"property_id": p['id'], "reason": (c or {}).get('reason', 'check under construction (see DESIGN.md); not claimed until its rules are built')})
m = {
    "version": 1,
    "setup_cmd": "./setup.sh",
    "hooks": {"guard": "verif", "enable": "none needed: the checks read /repo's source (go/packages, go/types, go/cfg); nothing in /repo is instrumented or executed",
              "baseline_off_cmd": "cd /repo && go test -vet=off -count=1 ./...", "source_commits": [], "add_only": True},
    "engines": [{"name": "sacheck", "path": "sa/", "serves_properties": [c['property_id'] for c in checks],
                 "kind_free_text": "repository-specific static analyser: type-checked AST + go/cfg dataflow (difference-constraint guard engine, path/typestate rules), reference call graph with field mod-sets, table-agreement rules, goyacc regeneration comparison"}],
    "checks": checks,
    "not_applicable": na,
    "notes": "All verdicts are computed from /repo's current source; nothing in /repo is executed. Level 'other' = structural necessary conditions of the property decided for every site/path of the source; each evidence file lists rules, instances, discharge methods and reasoned exceptions. Genuine defects found are in KNOWN_FINDINGS.txt (fixed:/known: lines).",
}
json.dump(m, open(os.path.join(root, 'MANIFEST.json'), 'w'), indent=1)
print("claimed:", [c['property_id'] for c in checks])
