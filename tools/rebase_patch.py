#!/usr/bin/env python3
"""Re-creates a stored patch on /repo's current HEAD when it no longer applies there.

usage: tools/rebase_patch.py <dir with patch.diff> [...]

Works in a throw-away clone of /repo (never in /repo itself): finds the newest ancestor of HEAD on which the patch
applies, commits it there, cherry-picks that commit onto HEAD (git's 3-way merge) and, when that succeeds, writes the
result as patch.diff (the previous file is kept as patch.<base>.diff).  Prints CONFLICT when git cannot merge it.
"""
import os, subprocess, sys, tempfile, shutil

def sh(args, cwd, check=False):
    r = subprocess.run(args, cwd=cwd, capture_output=True, text=True)
    if check and r.returncode != 0:
        raise SystemExit('%s failed: %s' % (' '.join(args), r.stderr[-400:]))
    return r

def main():
    t = tempfile.mkdtemp(prefix='sa-rebase-')
    try:
        sh(['git', 'clone', '-q', '/repo', t], '/', check=True)
        sh(['git', 'config', 'user.email', 'x@x'], t); sh(['git', 'config', 'user.name', 'x'], t)
        head = sh(['git', 'rev-parse', 'HEAD'], t).stdout.strip()
        revs = sh(['git', 'rev-list', '--max-count=40', 'HEAD'], t).stdout.split()
        for d in sys.argv[1:]:
            d = os.path.abspath(d)
            p = os.path.join(d, 'patch.diff')
            name = os.path.basename(d.rstrip('/'))
            sh(['git', 'checkout', '-q', '-f', head], t); sh(['git', 'clean', '-fdq'], t)
            if sh(['git', 'apply', '--check', p], t).returncode == 0:
                print('%-14s applies to HEAD' % name); continue
            base = None
            for r in revs[1:]:
                sh(['git', 'checkout', '-q', '-f', r], t); sh(['git', 'clean', '-fdq'], t)
                if sh(['git', 'apply', '--check', p], t).returncode == 0:
                    base = r; break
            if base is None:
                print('%-14s NO BASE FOUND' % name); continue
            sh(['git', 'apply', '--index', p], t, check=True)
            sh(['git', 'commit', '-q', '-m', 'seed'], t, check=True)
            c = sh(['git', 'rev-parse', 'HEAD'], t).stdout.strip()
            sh(['git', 'checkout', '-q', '-f', head], t)
            r = sh(['git', 'cherry-pick', '--no-commit', c], t)
            if r.returncode != 0:
                conf = sh(['git', 'diff', '--name-only', '--diff-filter=U'], t).stdout.split()
                gen = {'interp/arith.go': 'interp/arith.go.y', 'parser/parser.go': 'parser/parser.go.y'}
                if conf and all(f in gen and gen[f] not in conf for f in conf):
                    # only the generated file conflicts: regenerate it from the merged grammar
                    for f in conf:
                        dd, y = os.path.split(gen[f])
                        sh(['/verif/bin/goyacc', '-l', '-o', os.path.basename(f), y], os.path.join(t, dd), check=True)
                        if os.path.exists(os.path.join(t, dd, 'y.output')):
                            os.remove(os.path.join(t, dd, 'y.output'))
                        sh(['git', 'add', f], t, check=True)
                    diff = sh(['git', 'diff', '--cached', head], t).stdout
                    shutil.copy(p, os.path.join(d, 'patch.%s.diff' % base[:7]))
                    open(p, 'w').write(diff)
                    sh(['git', 'reset', '-q', '--hard', head], t)
                    print('%-14s rebased from %s (generated file regenerated)' % (name, base[:7]))
                    continue
                print('%-14s CONFLICT (base %s) in %s' % (name, base[:7], ' '.join(conf)))
                sh(['git', 'cherry-pick', '--abort'], t); sh(['git', 'reset', '-q', '--hard', head], t)
                continue
            diff = sh(['git', 'diff', '--cached', head], t).stdout
            shutil.copy(p, os.path.join(d, 'patch.%s.diff' % base[:7]))
            open(p, 'w').write(diff)
            sh(['git', 'reset', '-q', '--hard', head], t)
            print('%-14s rebased from %s' % (name, base[:7]))
    finally:
        shutil.rmtree(t, ignore_errors=True)

main()
