#!/usr/bin/env python3
"""Rule-liveness self test: applies each seeded edit (seeds/*.json) to a scratch copy of /repo's
current tree, checks that it still builds, runs the named property checks against the scratch copy
and verifies that the expected rule reports it.  Never touches /repo.  Usage:
   tools/seedtest.py [-k substring] [--tests] [-j N]
"""
import json, os, subprocess, sys, tempfile, shutil, glob, argparse, concurrent.futures
ROOT = os.path.dirname(os.path.dirname(os.path.abspath(__file__)))
REPO = os.environ.get('VERIF_REPO', '/repo')
ENV = dict(os.environ, GOFLAGS='-mod=mod', GOPROXY='off', GOSUMDB='off', GOTOOLCHAIN='local', GOWORK='off')

def run_seed(seed, run_tests):
    d = tempfile.mkdtemp(prefix='sa-seed-')
    try:
        for name in ['ast', 'interp', 'parser', 'pattern', 'printer', 'go.mod']:
            src = os.path.join(REPO, name)
            if os.path.isdir(src):
                shutil.copytree(src, os.path.join(d, name))
            else:
                shutil.copy(src, os.path.join(d, name))
        for e in seed['edits']:
            p = os.path.join(d, e['file'])
            s = open(p).read()
            if s.count(e['old']) < 1:
                return seed['name'], 'NOT-APPLICABLE', 'anchor text not found in ' + e['file']
            s = s.replace(e['old'], e['new'], e.get('count', 1))
            open(p, 'w').write(s)
        b = subprocess.run(['go', 'build', './...'], cwd=d, env=ENV, capture_output=True, text=True)
        if b.returncode != 0:
            return seed['name'], 'DOES-NOT-BUILD', b.stderr[-300:]
        if run_tests:
            t = subprocess.run(['go', 'test', '-vet=off', '-count=1', './...'], cwd=d, env=ENV, capture_output=True, text=True)
            tests = 'tests-pass' if t.returncode == 0 else 'tests-FAIL'
        else:
            tests = ''
        caught, lines = [], []
        for prop in seed['props']:
            ev = os.path.join(d, 'ev-%s.json' % prop)
            r = subprocess.run([os.path.join(ROOT, 'bin', 'sacheck'), '-prop', prop, '-repo', d, '-verif', ROOT, '-out', ev],
                               env=ENV, capture_output=True, text=True)
            out = r.stdout
            hit = [l for l in out.splitlines() if (l.startswith('VIOLATED') or l.startswith('UNDECIDED'))]
            want = seed.get('rule')
            ok = any((want is None or ('rule=%s ' % want) in l) for l in hit)
            if ok:
                caught.append(prop)
            lines += [prop + ': ' + l[:220] for l in hit[:3]]
        status = 'CAUGHT' if len(caught) == len(seed['props']) else ('PARTIAL' if caught else 'LIVENESS-GAP')
        if seed.get('benign'):
            status = 'SILENT-OK' if not lines else ('KNOWN-LIMIT' if seed.get('known_false_alarm') else 'FALSE-ALARM')
        return seed['name'], status + (' ' + tests if tests else ''), '\n      '.join(lines)
    finally:
        shutil.rmtree(d, ignore_errors=True)

def main():
    ap = argparse.ArgumentParser()
    ap.add_argument('-k', default='')
    ap.add_argument('--tests', action='store_true')
    ap.add_argument('-j', type=int, default=8)
    ap.add_argument('-v', action='store_true')
    ap.add_argument('--prop', default='')
    ap.add_argument('--json', default='')
    a = ap.parse_args()
    seeds = []
    for f in sorted(glob.glob(os.path.join(ROOT, 'seeds', '*.json'))):
        for s in json.load(open(f)):
            if a.k in s['name'] and (not a.prop or a.prop in s['props']):
                if a.prop:
                    s = dict(s, props=[a.prop])
                seeds.append(s)
    subprocess.run([os.path.join(ROOT, 'run'), 'NONE'], capture_output=True)  # make sure the binary is fresh
    bad = 0
    results = []
    with concurrent.futures.ThreadPoolExecutor(a.j) as ex:
        for name, status, detail in ex.map(lambda s: run_seed(s, a.tests), seeds):
            results.append({'seed': name, 'status': status})
            if a.prop and status.startswith('LIVENESS-GAP'):
                print('LIVENESS-GAP property=%s seed=%s' % (a.prop, name))
                continue
            if a.prop:
                continue
            print('%-14s %s' % (status, name))
            if a.v or not (status.startswith('CAUGHT') or status.startswith('SILENT-OK') or status.startswith('KNOWN-LIMIT')):
                if detail:
                    print('      ' + detail)
            if not (status.startswith('CAUGHT') or status.startswith('SILENT-OK') or status.startswith('NOT-APPLICABLE') or status.startswith('KNOWN-LIMIT')):
                bad += 1
    if a.json:
        json.dump(results, open(a.json, 'w'))
    if a.prop:
        print('rule-liveness: %d seeded variants of the current tree for %s, %d caught, %d not applicable, %d gaps' % (
            len(results), a.prop, sum(r['status'].startswith('CAUGHT') for r in results),
            sum(r['status'].startswith('NOT-APPLICABLE') for r in results), sum(r['status'].startswith('LIVENESS-GAP') or r['status'].startswith('PARTIAL') for r in results)))
        sys.exit(0)
    print('%d seeds, %d not as expected' % (len(seeds), bad))
    sys.exit(1 if bad else 0)
main()
