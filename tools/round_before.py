#!/usr/bin/env python3
"""Writes seeded/ROUND<N>_BEFORE.md from the meta.json files of round N as tryseed.py left them
(run with SACHECK=<baseline binary>, i.e. before any rule was changed in response to the round).
usage: tools/round_before.py 7 "<one-paragraph description of the round's brief>" <repo-head> """
import json, glob, os, sys, re
n, brief, head = sys.argv[1], sys.argv[2], sys.argv[3]
ROOT = os.path.dirname(os.path.dirname(os.path.abspath(__file__)))
rows = []
for d in sorted(glob.glob(os.path.join(ROOT, 'seeded', 'C*-R%s[AB]' % n))):
    m = json.load(open(os.path.join(d, 'meta.json')))
    fired = m.get('checks_fired', {})
    def rules(ls):
        return sorted({re.search(r'rule=(\S+)', l).group(1) for l in ls if 'rule=' in l})
    prop = m['property']
    own = ', '.join(rules(fired.get(prop, []))) or '**no**'
    others = '; '.join('%s:%s' % (p, ','.join(rules(v))) for p, v in sorted(fired.items()) if p != prop) or '-'
    rows.append((os.path.basename(d), prop, m.get('confirmed'), own, others))
own = sum(r[3] != '**no**' for r in rows); other = sum(r[3] == '**no**' and r[4] != '-' for r in rows)
out = ['# Round %s of independent breaking changes: result with the checker as it stood when the round was written' % n, '',
       'Recorded with the checker binary built from /verif tag `round%s-baseline`, /repo HEAD %s, before any rule was changed in response to round %s.  Brief of this round: %s' % (n, head, n, brief), '',
       '| change | property | confirmed | own check fired | other checks that fired |', '|---|---|---|---|---|']
out += ['| %s | %s | %s | %s | %s |' % r for r in rows]
out += ['', '%d changes: %d caught by the targeted property\'s own check, %d only by another property\'s check, %d missed (%.1f %% own).' % (len(rows), own, other, len(rows) - own - other, 100.0 * own / max(1, len(rows)))]
open(os.path.join(ROOT, 'seeded', 'ROUND%s_BEFORE.md' % n), 'w').write('\n'.join(out) + '\n')
print(out[-1])
