#!/bin/sh
# usage: tools/refuzz.sh <seeded-name>   — re-creates a stored patch that applies to HEAD only with fuzz, then confirms it again with tryseed
export GOFLAGS=-mod=mod GOPROXY=off GOSUMDB=off GOTOOLCHAIN=local
n=$1; prop=${n%%-*}; label=${n#*-}
a=$(mktemp -d /tmp/sa-rf-XXXX); mkdir $a/a $a/b $a/seed
git -C /repo archive HEAD | tar -x -C $a/a; git -C /repo archive HEAD | tar -x -C $a/b
if [ -n "$2" ]; then (cd $a/b && python3 "$2") || { echo "edit failed"; rm -rf $a; exit 1; }
else (cd $a/b && patch -p1 -s --fuzz=3 -i /verif/seeded/$n/patch.diff) || { echo "does not apply even with fuzz"; rm -rf $a; exit 1; }; fi
find $a/b -name '*.orig' -delete; find $a/b -name '*.rej' -delete
(cd $a && diff -ruN a b | sed 's#^--- a/#--- a/#; s#^+++ b/#+++ b/#' > seed/patch.diff)
for f in /verif/seeded/$n/*; do case $(basename $f) in patch*.diff|meta.json) ;; *) cp -r $f $a/seed/ ;; esac; done
python3 /verif/tools/tryseed.py $a/seed $prop $label > $a/out.txt 2>&1; grep -E "\"(demo_on_clean_tree|builds|existing_tests_with_change|demo_with_change|confirmed|caught_by_own_property_check)\"" $a/out.txt | cut -c1-160
rm -rf $a
