#!/usr/bin/env python3
"""Applies the rejected hunks left by `patch` (*.rej) by anchor lines: the span of the current file between the hunk's
first and last context line is replaced by the hunk's new text.  Used by tools/refuzz.sh edit scripts to re-create a
stored change whose hunk was written against code that a later repair of /repo has changed.  usage (cwd = tree):
    rej_apply.py <seeded-name>     applies /verif/seeded/<name>/patch.diff with fuzz, then every *.rej by anchors
"""
import glob, os, re, subprocess, sys

def hunks(rej):
    cur = None
    for l in open(rej).read().split('\n'):
        if l.startswith('@@'):
            cur = []
            yield_list.append(cur)
        elif cur is not None and (l[:1] in (' ', '+', '-')):
            cur.append(l)
        elif cur is not None and l == '':
            cur.append(' ')

name = sys.argv[1]
subprocess.run(['patch', '-p1', '--fuzz=3', '-i', '/verif/seeded/%s/patch.diff' % name], capture_output=True, text=True)
ok = True
for rej in glob.glob('*/*.rej') + glob.glob('*.rej'):
    target = rej[:-4]
    yield_list = []
    for _ in hunks(rej) or []:
        pass
    s = open(target).read().split('\n')
    for h in yield_list:
        while h and h[-1] == ' ':
            h.pop()
        new = [l[1:] for l in h if l[:1] in (' ', '+')]
        ctx_first = next((l[1:] for l in h if l[:1] == ' ' and l[1:].strip()), None)
        ctx_last = next((l[1:] for l in reversed(h) if l[:1] == ' ' and l[1:].strip()), None)
        if ctx_first is None or ctx_last is None:
            print('no anchors in', rej); ok = False; continue
        idx_first = [i for i, l in enumerate(s) if l == ctx_first]
        idx_last = [i for i, l in enumerate(s) if l == ctx_last]
        # choose the closest pair in order
        best = None
        for a in idx_first:
            for b in idx_last:
                if b > a and (best is None or b - a < best[1] - best[0]):
                    best = (a, b)
        if best is None:
            print('anchors not found for', rej, repr(ctx_first), repr(ctx_last)); ok = False; continue
        nf = next(i for i, l in enumerate(new) if l == ctx_first)
        nl = len(new) - 1 - next(i for i, l in enumerate(reversed(new)) if l == ctx_last)
        s[best[0]:best[1] + 1] = new[nf:nl + 1]
    open(target, 'w').write('\n'.join(s))
    os.remove(rej)
for o in glob.glob('*/*.orig') + glob.glob('*.orig'):
    os.remove(o)
sys.exit(0 if ok else 1)
