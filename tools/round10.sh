#!/bin/sh
# processes every delivered round-3 seed that has not been processed yet
export GOFLAGS=-mod=mod GOPROXY=off GOSUMDB=off GOTOOLCHAIN=local
cd /verif
for d in /tmp/wt10/C*/_seed/A /tmp/wt10/C*/_seed/B; do
  [ -f "$d/patch.diff" ] || continue
  p=$(echo $d | sed 's#/tmp/wt10/\(C[0-9]*\)/.*#\1#'); l=R10$(basename $d)
  [ -d seeded/$p-$l ] && continue
  python3 tools/tryseed.py $d $p $l 2>&1 | python3 -c "
import sys,json
t=sys.stdin.read(); i=t.find('{')
try:
    m=json.loads(t[i:])
    print('$p-$l', 'confirmed=',m.get('confirmed'), 'own=',m.get('caught_by_own_property_check'), 'any=',m.get('caught_by_any_check'), sorted(m.get('checks_fired',{}).keys()))
except Exception as e:
    print('$p-$l', 'ERR', t[-300:])
"
done
