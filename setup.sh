#!/bin/sh
# Builds the checker from files on disk only (offline).
set -e
cd "$(dirname "$0")"
export GOFLAGS=-mod=mod GOPROXY=off GOSUMDB=off GOTOOLCHAIN=local GOWORK=off CGO_ENABLED=0
unset GOOS GOARCH
mkdir -p bin evidence
(cd sa && go build -o ../bin/sacheck ./cmd/sacheck)
(cd sa && go build -o ../bin/goyacc golang.org/x/tools/cmd/goyacc)
# warm the build cache for the analysed configuration (export data of std)
(cd /repo && go build ./... >/dev/null 2>&1 || true)
echo "setup ok: $(ls bin)"
