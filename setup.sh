#!/bin/sh
exit 0
